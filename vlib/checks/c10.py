"""C10 Simulated and numerical integrals equal the average / integral they denote."""
from __future__ import annotations

import math

import numpy as np
from hypothesis import strategies as st

from .. import build, gen, isolate, refsem
from ..runner import Outcome, SubCheck
from .c01 import features, tol

PROPERTY = 'C10'
LEVEL = 'exploration'
ASSUMPTIONS = [
    'user-defined generators are deterministic affine functions of (observation, draw) so that every series is '
    'known exactly; native generators are observed through recording wrappers installed in the catalogue '
    'inside the check process (no source hook)',
    'Integrate is compared with scipy.integrate.quad on the real line (tolerance 1e-6 relative + 1e-9), for '
    'integrands g(w) * normal density with g polynomial / exp of concave quadratic / logistic of linear',
    'Derive is compared with the forward-mode derivative of the reference semantics (1e-7 relative)',
]
BUDGETS = dict(quick=dict(shards=8), thorough=dict(shards=16))

NATIVE = ['UNIFORM', 'UNIFORM_ANTI', 'UNIFORM_HALTON2', 'UNIFORM_HALTON3', 'UNIFORM_MLHS',
          'UNIFORMSYM', 'UNIFORMSYM_HALTON5', 'NORMAL', 'NORMAL_ANTI', 'NORMAL_HALTON2',
          'NORMAL_MLHS_ANTI']
DRAW_NAMES = ['xi', 'Xi', 'xi_10', 'xi_2', 'omega', 'EC', 'ec_car', 'B_rnd', 'a rnd', 'z1']
USER_TYPES = ['MYGEN', 'mygen', 'GEN_B', 'T10', 'T2', 'ZZ', 'normal', 'Uniform', 'Normal_Anti', 'uniform_halton2']


def user_series(const, n, r):
    """Deterministic user-defined generator: value = a + b*i + c*j, returned as float64,
    float32 or integers (discrete draws are legitimate, e.g. class membership)."""
    a, b, c = const[:3]
    dtype = const[3] if len(const) > 3 else 'float'
    i = np.arange(n).reshape(n, 1)
    j = np.arange(r).reshape(1, r)
    v = a + b * i + c * j
    if len(const) > 4:
        v = v + const[4] * n  # a series that depends on the requested sample size
    if dtype == 'int':
        return np.round(4 * v).astype(np.int64)
    if dtype == 'float32':
        return v.astype(np.float32)
    return v


def _substitute(spec, mapping):
    """Replace placeholder columns by draw variables."""
    if not isinstance(spec, list):
        return spec
    if spec and spec[0] == 'Var' and spec[1] in mapping:
        name, typ = mapping[spec[1]]
        return ['Draws', name, typ]
    return [_substitute(c, mapping) for c in spec]


# ---------------------------------------------------------------------------------------------
# Monte-Carlo


@st.composite
def strat_mc(draw, tier):
    big = tier == 'thorough'
    n_draw_vars = draw(st.integers(1, 3))
    table, info = draw(gen.tables(max_rows=6 if big else 4, with_choice=draw(st.booleans())))
    placeholders = [f'__d{i}' for i in range(n_draw_vars)]
    dnames = draw(st.lists(st.sampled_from(DRAW_NAMES), min_size=n_draw_vars, max_size=n_draw_vars,
                           unique=True))
    user_types = {}
    dtypes = []
    for i in range(n_draw_vars):
        if draw(st.floats(0, 1)) < 0.6:
            t = draw(st.sampled_from(USER_TYPES))
            if t not in user_types:
                user_types[t] = [draw(gen.dyadic(-1, 1)), draw(gen.dyadic(-1, 1, 16)),
                                 draw(gen.dyadic(-1, 1, 16)),
                                 draw(st.sampled_from(['float', 'float', 'int', 'float32']))]
            dtypes.append(t)
        else:
            dtypes.append(draw(st.sampled_from(NATIVE)))
    info2 = dict(info)
    info2['real'] = list(info['real']) + placeholders + placeholders  # favour the draw variables
    g = gen.TreeGen(draw, info2, max_betas=3, max_nodes=25, logit=info.get('choice') is not None)
    g.not_in_linutil = set(placeholders)
    inner = g.real(draw(st.integers(1, 4)))
    # the argument must contain at least one draw variable
    mapping = {p: (dnames[i], dtypes[i]) for i, p in enumerate(placeholders)}
    used = {n[1] for n in refsem.walk(inner, g.shared) if n[0] == 'Var' and n[1] in mapping}
    for p in placeholders:
        if p not in used:
            inner = ['Plus', inner, ['Times', ['Var', p], g._real_leaf()]]
    shape = draw(st.sampled_from(['plain', 'log_of_exp', 'plus_outer', 'times_outer']))
    if shape == 'plain':
        root = ['MonteCarlo', inner]
    elif shape == 'log_of_exp':
        root = ['log', ['MonteCarlo', ['exp', inner]]]
    else:
        # the outer part has no draws
        g_outer = gen.TreeGen(draw, info, max_betas=2, max_nodes=8, logit=False, sharing=False,
                              beta_names=[n for n in gen.BETA_NAMES if n not in g.betas][:2])
        outer = g_outer.real(2)
        root = ['Plus' if shape == 'plus_outer' else 'Times', ['MonteCarlo', inner], outer]
    shared = [_substitute(s, mapping) for s in g.shared]
    root = _substitute(root, mapping)
    r = draw(st.integers(1, 6)) * 2 if draw(st.booleans()) else draw(st.integers(1, 12)) * 2
    return dict(table=table, shared=shared, roots=[root], betas={}, overloads=draw(st.booleans()),
                np_seed=draw(st.integers(0, 2**31 - 1)), draws=[[dnames[i], dtypes[i]] for i in range(n_draw_vars)],
                user_types=user_types, R=r, seed_param=draw(st.sampled_from([0, 1, 7, 12345])),
                seed_via=draw(st.sampled_from(['parameters', 'kwarg'])), formulas_dict=draw(st.booleans()),
                # an earlier Monte-Carlo formula evaluated on the SAME database (other draw variables)
                prelude=draw(st.one_of(st.none(), st.lists(
                    st.tuples(st.sampled_from(['AA_first', 'a_0', 'zz_last', 'Y']),
                              st.sampled_from(list(user_types) or ['UNIFORM_HALTON2'])),
                    min_size=1, max_size=2, unique_by=lambda t: t[0]))))


def _install_recorders(record):
    import biogeme.native_draws as nd

    for name, tup in list(nd.native_random_number_generators.items()):
        def make(name=name, gen_=tup.generator):
            def wrapper(sample_size, number_of_draws):
                a = gen_(sample_size, number_of_draws)
                record.append((name, np.array(a, dtype=float).copy()))
                return a
            return wrapper
        nd.native_random_number_generators[name] = nd.RandomNumberGeneratorTuple(
            generator=make(), description=tup.description)


def _observe_mc(case):
    import biogeme.biogeme as bio
    from biogeme.parameters import Parameters

    record = []
    _install_recorders(record)
    np.random.seed(case['np_seed'])
    database = build.build_database(case['table'])
    rng = {}
    for t, const in case['user_types'].items():
        def make(const=const, t=t):
            def g(sample_size, number_of_draws):
                a = user_series(const, sample_size, number_of_draws)
                record.append((t, a.copy()))
                return a
            return g
        rng[t] = (make(), f'user-defined {t}')
    if rng:
        database.set_random_number_generators(rng)
    b = build.Builder(case['shared'], overloads=case['overloads'])
    e = b.build(case['roots'][0])
    res = {}
    if case.get('prelude'):
        import biogeme.expressions as ex

        terms = [ex.bioDraws(n, t) for n, t in case['prelude']] + [ex.bioDraws(n, t) for n, t in case['draws']]
        pre = ex.MonteCarlo(ex.bioMultSum(terms))
        pre.get_value_c(database=database, number_of_draws=case['R'], prepare_ids=True)
    res['record_start'] = len(record)
    values = e.get_value_c(database=database, number_of_draws=case['R'], prepare_ids=True)
    res['values'] = np.asarray(values, dtype=float).tolist()
    res['table'] = np.asarray(database.theDraws, dtype=float).tolist()
    res['record'] = [(t, a.tolist()) for t, a in record]
    # second path: a BIOGEME object with a seed parameter; two fresh objects must agree
    likes = []
    tables = []
    for _ in range(2):
        record2 = []
        database2 = build.build_database(case['table'])
        if rng:
            database2.set_random_number_generators(rng)
        e2 = build.Builder(case['shared'], overloads=case['overloads']).build(case['roots'][0])
        params = Parameters()
        params.set_value(name='number_of_draws', value=case['R'])
        params.set_value(name='number_of_threads', value=1)
        formulas = e2
        if case.get('formulas_dict'):
            import biogeme.expressions as ex

            last_name = sorted(n_ for n_, _ in case['draws'])[-1]
            last_type = dict((n_, t_) for n_, t_ in case['draws'])[last_name]
            only_last = ex.MonteCarlo(ex.bioDraws(last_name, last_type))
            # the formula without draws comes last in the dictionary
            formulas = {'log_like': e2, 'only_last': only_last,
                        'plain': ex.Variable(case['table']['columns'][0][0]) * 1.0 + 0.0}
        if case.get('seed_via', 'parameters') == 'kwarg':
            the = bio.BIOGEME(database2, formulas, parameters=params, seed=case['seed_param'])
        else:
            params.set_value(name='seed', value=case['seed_param'])
            the = bio.BIOGEME(database2, formulas, parameters=params)
        the.save_iterations = False
        the.generate_html = False
        the.generate_pickle = False
        x = [the.id_manager.free_betas.expressions[n].initValue for n in the.free_beta_names]
        likes.append(float(the.calculate_likelihood(x, scaled=False)))
        tables.append(np.asarray(database2.theDraws, dtype=float).tolist())
        if not res.get('sim_rows'):
            if case.get('formulas_dict'):
                # one formula of the dictionary is first evaluated on its own, on the same database
                only_last.get_value_c(database=database2, number_of_draws=case['R'], prepare_ids=True)
            # the same object: simulation, then the likelihood again (same draws throughout)
            sim = the.simulate(dict(zip(the.free_beta_names, x)))
            if case.get('formulas_dict'):
                res['sim_only_last'] = np.asarray(sim['only_last'], dtype=float).tolist()
                res['sim_plain'] = np.asarray(sim['plain'], dtype=float).tolist()
            res['sim_rows'] = np.asarray(sim['log_like'], dtype=float).tolist()
            res['like_after_simulate'] = float(the.calculate_likelihood(x, scaled=False))
    res['likes'] = likes
    res['bio_tables'] = tables
    return res


def judge_mc(case) -> Outcome:
    out = Outcome()
    root = case['roots'][0]
    names_sorted = sorted(n for n, _ in case['draws'])
    type_of = dict((n, t) for n, t in case['draws'])
    appearance = []
    for n in refsem.walk(root, case['shared']):
        if n[0] == 'Draws' and n[1] not in appearance:
            appearance.append(n[1])
    types = [type_of[n] for n in names_sorted]
    out.nontrivial = (len(names_sorted) >= 2 and len(set(types)) >= 2 and appearance != names_sorted
                      and case['R'] >= 3)
    out.classes += [f'draw_vars={len(names_sorted)}',
                    'order_differs' if appearance != names_sorted else 'order_same']
    out.classes += [('user:' if t in case['user_types'] else 'native:') + t for t in set(types)]
    out.classes += [f'dtype:{case["user_types"][t][3]}' for t in set(types) if t in case['user_types'] and len(case['user_types'][t]) > 3]
    out.classes += ['after_prelude' if case.get('prelude') else 'fresh_database', f'seed_via_{case.get("seed_via", "parameters")}']
    feats = features(case, root)
    for n in refsem.walk(root, case['shared']):
        if n[0] == 'LogLogit':
            subs = [n[1]] + [av for _, _, av in n[2] if av is not None]
            if any(m[0] == 'Draws' for sub in subs for m in refsem.walk(sub, case['shared'])):
                feats.add('draws_in_logit_availability')
    prefix = ''.join(f'[{f}]' for f in sorted(feats))
    res = isolate.call(_observe_mc, case)
    if not res['ok']:
        out.fail(f'{prefix}mc:raises:{res["exc_type"]}',
                 f'Monte-Carlo formula raised {res["exc_type"]}: {res["exc_msg"][:300]} for '
                 f'{refsem.render(root, case["shared"])[:300]}')
        return out
    o = res['value']
    table = np.asarray(o['table'], dtype=float)
    rows = build.table_rows(case['table'])
    n = len(rows)
    R = case['R']
    if table.shape != (n, R, len(names_sorted)):
        out.fail(prefix + 'mc:table_shape', f'draw table has shape {table.shape}, expected {(n, R, len(names_sorted))}')
        return out
    # (1) slab k is exactly what the generator of the k-th sorted name's type produced
    rec = o['record'][o.get('record_start', 0):][: len(names_sorted)]
    for k, name in enumerate(names_sorted):
        t = type_of[name]
        if k >= len(rec) or rec[k][0] != t:
            out.fail(prefix + 'mc:generator_order',
                     f'generators called in order {[r_[0] for r_ in rec]} for variables {names_sorted} with types {types}')
            break
        produced = np.asarray(rec[k][1], dtype=float)
        if produced.shape != (n, R) or not np.array_equal(table[:, :, k], produced):
            out.fail(prefix + 'mc:slab', f'draws of {name!r} (type {t}) are not the series its generator produced')
            break
        if t in case['user_types'] and not np.array_equal(produced, np.asarray(user_series(case['user_types'][t], n, R), dtype=float)):
            out.fail(prefix + 'mc:user_series', f'user generator {t} output altered')
            break
    if out.failures:
        return out
    # (2) value = mean over draws of the argument with each variable replaced by its own series
    try:
        refs = []
        for i, row in enumerate(rows):
            draws_by_r = [{name: float(table[i, r, k]) for k, name in enumerate(names_sorted)}
                          for r in range(R)]
            env = refsem.Env(row=row, betas={}, shared=case['shared'], draws_by_r=draws_by_r)
            v = refsem.evaluate(root, env, refsem.EVAlg())
            if v.e > 1e-7 * (1 + abs(v.v)):
                raise refsem.IllPosed('bound')
            refs.append(v)
    except (refsem.IllPosed, OverflowError) as e:
        out.skipped = 'ill-posed: ' + str(e)[:40]
        return out
    got = o['values']
    if len(got) != n:
        out.fail(prefix + 'mc:length', f'{len(got)} values for {n} observations')
        return out
    for i, (gv, ev) in enumerate(zip(got, refs)):
        if not (math.isfinite(gv) and abs(gv - ev.v) <= tol(ev) + 1e-12 * R):
            out.fail(prefix + 'mc:value',
                     f'observation {i}: engine {gv!r} vs mean over {R} draws {ev.v!r} for '
                     f'{refsem.render(root, case["shared"])[:300]} draws={case["draws"]}')
            break
    # (3) reproducibility with a non-zero seed; the likelihood is the sum of the reference values
    l1, l2 = o['likes']
    t1, t2 = np.asarray(o['bio_tables'][0]), np.asarray(o['bio_tables'][1])
    native_random = any(t not in case['user_types'] and 'HALTON' not in t for t in types)
    if case['seed_param'] != 0:
        if not (l1 == l2 and np.array_equal(t1, t2)):
            out.fail(prefix + 'mc:seed_reproducibility',
                     f'seed={case["seed_param"]}: two fresh BIOGEME objects give {l1!r} and {l2!r}')
    if 'sim_rows' in o:
        s_ = float(np.sum(o['sim_rows']))
        if not abs(l1 - s_) <= 1e-9 * (1 + np.sum(np.abs(o['sim_rows']))):
            out.fail(prefix + 'mc:likelihood_vs_simulate', f'BIOGEME.calculate_likelihood {l1!r} but simulate() of the same object, same '
                                                           f'parameters, sums to {s_!r}')
        if o['like_after_simulate'] != l1:
            out.fail(prefix + 'mc:likelihood_after_simulate', f'log likelihood {l1!r} before simulate(), {o["like_after_simulate"]!r} after, '
                                                              f'same object and parameters')
    if 'sim_plain' in o:
        col0 = [row[case['table']['columns'][0][0]] for row in rows]
        if o['sim_plain'] != col0:
            out.fail(prefix + 'mc:dictionary:plain_formula', f'formula without draws simulated to {o["sim_plain"]}, the column is {col0}')
        if not native_random:
            k_last = len(names_sorted) - 1
            want = [float(np.mean(table[i, :, k_last])) for i in range(n)]
            if not all(math.isfinite(a) and abs(a - b_) <= 1e-9 * (1 + abs(b_)) for a, b_ in zip(o['sim_only_last'], want)):
                out.fail(prefix + 'mc:dictionary:other_formula',
                         f'formula MonteCarlo({names_sorted[-1]}) of the same dictionary, evaluated once on its own before simulate(), '
                         f'simulates to {o["sim_only_last"]}; the mean of its series is {want}')
            for i, (gv, ev) in enumerate(zip(o['sim_rows'], refs)):
                if not (math.isfinite(gv) and abs(gv - ev.v) <= tol(ev) + 1e-12 * R):
                    out.fail(prefix + 'mc:dictionary:simulate', f'observation {i}: simulate() gives {gv!r}, mean over draws {ev.v!r} '
                                                               f'(dictionary of three formulas, the last one without draws)')
                    break
    if not native_random:
        total = sum(ev.v for ev in refs)
        ttol = sum(tol(ev) for ev in refs) + 1e-10 * (1 + abs(total))
        if not abs(l1 - total) <= ttol:
            out.fail(prefix + 'mc:biogeme_likelihood', f'BIOGEME.calculate_likelihood {l1!r} vs sum of reference {total!r}')
    return out


def render_mc(case):
    return (f'{refsem.render(case["roots"][0], case["shared"])[:400]} with draws {case["draws"]}, R={case["R"]}, '
            f'{len(case["table"]["columns"][0][2])} rows, user types {case["user_types"]}')


# ---------------------------------------------------------------------------------------------
# numerical integration

SQRT2PI = math.sqrt(2 * math.pi)


def _density(w):
    return ['Times', ['Num', 1.0 / SQRT2PI], ['exp', ['Times', ['Num', -0.5], ['PowC', ['RV', w], 2.0]]]]


@st.composite
def strat_integrate(draw, tier, differentiable=False):
    table, info = draw(gen.tables(max_rows=3, with_choice=False))
    w = draw(st.sampled_from(['omega', 'OMEGA', 'eps', 'x_rnd', 'rv_1', 'rv_10']))
    g = gen.TreeGen(draw, info, max_betas=3, max_nodes=8, logit=False, sharing=False, literals=False,
                    differentiable=differentiable)

    def coef():
        return g.real(1)

    def slope():
        # moderate slopes: a fixed-node quadrature cannot resolve near-step functions
        v = draw(gen.dyadic(-2, 2))
        if draw(st.booleans()):
            return ['Num', v]
        free = [n for n in gen.BETA_NAMES if n not in g.betas]
        b = ['Beta', free[0], v, None, None, draw(st.sampled_from([0, 0, 1]))]
        g.betas[free[0]] = b
        return b

    kind = draw(st.sampled_from(['poly', 'poly', 'expquad', 'logistic', 'mixed']))
    rv = ['RV', w]
    if kind == 'poly':
        deg = draw(st.integers(0, 4))
        body = coef()
        for d in range(1, deg + 1):
            body = ['Plus', body, ['Times', coef(), ['PowC', rv, float(d)]]]
    elif kind == 'expquad':
        # exp(a + b w - c w^2), c >= 0
        # moderate curvature only: the property speaks of normally decaying integrands, and a
        # fixed-node quadrature cannot resolve arbitrarily narrow peaks
        c = draw(st.one_of(gen.dyadic(0, 1.0), st.just(0.0)))
        body = ['exp', ['Minus', ['Plus', coef(), ['Times', slope(), rv]],
                        ['Times', ['Num', c], ['PowC', rv, 2.0]]]]
    elif kind == 'logistic':
        lin = ['Plus', coef(), ['Times', slope(), rv]]
        body = ['Divide', ['Num', 1.0], ['Plus', ['Num', 1.0], ['exp', ['Neg', lin]]]]
    else:
        lin = ['Plus', coef(), ['Times', slope(), rv]]
        body = ['Times', ['Plus', coef(), ['Times', coef(), rv]],
                ['Divide', ['Num', 1.0], ['Plus', ['Num', 1.0], ['exp', lin]]]]
    integrand = ['Times', body, _density(w)]
    root = ['Integrate', integrand, w]
    wrap = draw(st.sampled_from(['none', 'log', 'plus']))
    if wrap == 'plus':
        root = ['Plus', root, coef()]
    return dict(table=table, shared=[], roots=[root], betas={}, overloads=draw(st.booleans()),
                np_seed=0, kind=kind)


def _observe_plain(case):
    np.random.seed(case['np_seed'])
    database = build.build_database(case['table'])
    e = build.Builder(case['shared'], overloads=case['overloads']).build(case['roots'][0])
    v = e.get_value_c(database=database, prepare_ids=True)
    return np.asarray(v, dtype=float).tolist()


def judge_integrate(case) -> Outcome:
    out = Outcome()
    root = case['roots'][0]
    rows = build.table_rows(case['table'])
    out.classes.append(f'integrand={case["kind"]}')
    has_param = any(n[0] == 'Beta' for n in refsem.walk(root, []))
    out.nontrivial = has_param
    try:
        refs = []
        for row in rows:
            v = refsem.evaluate(root, refsem.Env(row=row, betas={}, shared=[]), refsem.EVAlg())
            refs.append(v)
    except (refsem.IllPosed, OverflowError) as e:
        out.skipped = 'ill-posed: ' + str(e)[:40]
        return out
    res = isolate.call(_observe_plain, case)
    if not res['ok']:
        out.fail(f'integrate:raises:{res["exc_type"]}', f'Integrate raised {res["exc_type"]}: {res["exc_msg"][:300]} '
                                                        f'for {refsem.render(root)[:300]}')
        return out
    got = res['value']
    for i, (gv, ev) in enumerate(zip(got, refs)):
        if not (math.isfinite(gv) and abs(gv - ev.v) <= 1e-6 * abs(ev.v) + 1e-9 + 16 * ev.e):
            out.fail(f'integrate:value:{case["kind"]}',
                     f'row {i}: engine {gv!r} vs quadrature {ev.v!r} for {refsem.render(root)[:300]}')
            break
    return out


# ---------------------------------------------------------------------------------------------
# the derivative operator


@st.composite
def strat_derive(draw, tier):
    case = draw(gen.expression_cases(tier, differentiable=True, min_free=1, max_rows=4))
    root = case['roots'][0]
    cands = []
    for n in refsem.walk(root, case['shared']):
        if n[0] == 'Beta':
            cands.append(['beta', n[1]])
        elif n[0] == 'Var':
            cands.append(['var', n[1]])
    if not cands:
        cands = [['var', case['table']['columns'][0][0]]]
    kind, name = draw(st.sampled_from(cands))
    case['wrt'] = [kind, name]
    case['roots'] = [['Derive', root, name]]
    case['reuse_object'] = draw(st.booleans())
    return case


def _comparison_mentions(case, node, name):
    """Is `name` used below a comparison / logical / selection key (where d/dname is undefined)?"""
    for n in refsem.walk(node, case['shared']):
        if n[0] in refsem.COMPARISONS or n[0] in ('And', 'Or', 'BelongsTo'):
            for m in refsem.walk(n, case['shared']):
                if m[0] in ('Var', 'Beta') and m[1] == name:
                    return True
        if n[0] == 'Elem':
            for m in refsem.walk(n[1], case['shared']):
                if m[0] in ('Var', 'Beta') and m[1] == name:
                    return True
        if n[0] == 'CondSum':
            for c, _ in n[1]:
                for m in refsem.walk(c, case['shared']):
                    if m[0] in ('Var', 'Beta') and m[1] == name:
                        return True
        if n[0] == 'LogLogit':
            for m in refsem.walk(n[1], case['shared']):
                if m[0] == 'Var' and m[1] == name:
                    return True
            for _, _, av in n[2]:
                if av is not None:
                    for m in refsem.walk(av, case['shared']):
                        if m[0] == 'Var' and m[1] == name:
                            return True
    return False


def judge_derive(case) -> Outcome:
    out = Outcome()
    root = case['roots'][0]
    kind, name = case['wrt']
    out.classes.append(f'wrt={kind}')
    if _comparison_mentions(case, root[1], name):
        out.skipped = 'differentiation variable used in a condition / key (not differentiable)'
        return out
    rows = build.table_rows(case['table'])
    try:
        refs = []
        for row in rows:
            env = refsem.Env(row=row, betas=case['betas'], shared=case['shared'])
            # well-posedness of the differentiated formula itself
            v0 = refsem.evaluate(root[1], env, refsem.EVAlg())
            if v0.e > 1e-9 * (1 + abs(v0.v)):
                raise refsem.IllPosed('bound')
            v = refsem.evaluate(root, refsem.Env(row=row, betas=case['betas'], shared=case['shared']),
                                refsem.EVAlg())
            # finite-difference confirmation of the reference derivative (kinks of min/max)
            h = 1e-6
            vals = []
            for s in (+1, -1):
                if kind == 'beta':
                    spec_b = [n for n in refsem.walk(root[1], case['shared']) if n[0] == 'Beta' and n[1] == name][0]
                    base = case['betas'].get(name, spec_b[2])
                    env2 = refsem.Env(row=row, betas=dict(case['betas'], **{name: base + s * h}), shared=case['shared'])
                else:
                    env2 = refsem.Env(row=dict(row, **{name: row[name] + s * h}), betas=case['betas'],
                                      shared=case['shared'])
                vals.append(refsem.evaluate(root[1], env2, refsem.JetAlg(0)).v)
            fd = (vals[0] - vals[1]) / (2 * h)
            if abs(fd - v.v) > 1e-4 * (1 + abs(fd) + abs(v.v)):
                raise refsem.IllPosed('reference derivative not confirmed by finite differences')
            refs.append(v)
    except (refsem.IllPosed, OverflowError, ZeroDivisionError, KeyError) as e:
        out.skipped = 'ill-posed: ' + str(e)[:40]
        return out
    out.nontrivial = any(abs(v.v) > 1e-12 for v in refs) and sum(1 for _ in refsem.walk(root, case['shared'])) >= 5
    feats = features(case, root)
    from .c02 import numeric_features
    from .c01 import shared_under_value_only_context

    if shared_under_value_only_context(case, root):
        feats.add('shared_subtree_also_under_comparison')
    if any(n[0] == 'LinUtil' for n in refsem.walk(root, case['shared'])):
        feats.add('linutil_under_derive')
    prefix = ''.join(f'[{f}]' for f in sorted(feats))
    res = isolate.call(_observe_plain_betas, case)
    if not res['ok']:
        out.fail(f'{prefix}derive:raises:{res["exc_type"]}',
                 f'Derive raised {res["exc_type"]}: {res["exc_msg"][:300]} for {refsem.render(root, case["shared"])[:300]}')
        return out
    got = res['value']['first']
    for i, (gv, ev) in enumerate(zip(got, refs)):
        if not (math.isfinite(gv) and abs(gv - ev.v) <= 1e-7 * (1 + abs(ev.v))):
            out.fail(f'{prefix}derive:value:{kind}',
                     f'row {i}: engine {gv!r} vs reference derivative {ev.v!r} w.r.t. {name!r} of '
                     f'{refsem.render(root[1], case["shared"])[:300]}')
            break
    if not out.failures:
        for tag_, vals_, f_ in (('in_larger_formula', res['value'].get('in_bigger'), lambda x: 0.5 * x + 0.25),
                                ('columns_reordered', res['value'].get('reordered'), lambda x: x)):
            if vals_ is None:
                continue
            for i, (gv, ev) in enumerate(zip(vals_, refs)):
                want = f_(ev.v)
                if not (math.isfinite(gv) and abs(gv - want) <= 1e-7 * (1 + abs(want))):
                    out.fail(f'{prefix}derive:same_object:{tag_}',
                             f'row {i}: the same Derive object evaluated again ({tag_}) gives {gv!r}, expected {want!r} '
                             f'(derivative w.r.t. {name!r} of {refsem.render(root[1], case["shared"])[:250]})')
                    break
    return out


def _observe_plain_betas(case):
    np.random.seed(case['np_seed'])
    database = build.build_database(case['table'])
    e = build.Builder(case['shared'], overloads=case['overloads']).build(case['roots'][0])
    v = e.get_value_c(database=database, betas=case['betas'] or None, prepare_ids=True)
    out = dict(first=np.asarray(v, dtype=float).tolist())
    if case.get('reuse_object'):
        # the SAME object again under other numberings of the elementary expressions: inside a larger formula with two
        # more parameters (one sorted first, one last), and on a table whose columns are listed in reverse order
        from biogeme.expressions import Beta

        bigger = Beta('zzz_extra', 0.5, None, None, 0) * e + Beta('AAA_extra', 0.25, None, None, 0)
        out['in_bigger'] = np.asarray(bigger.get_value_c(database=database, betas=case['betas'] or None, prepare_ids=True),
                                      dtype=float).tolist()
        rev = dict(columns=list(reversed(case['table']['columns'])))
        out['reordered'] = np.asarray(e.get_value_c(database=build.build_database(rev), betas=case['betas'] or None,
                                                    prepare_ids=True), dtype=float).tolist()
    return out


SUBCHECKS = [
    SubCheck('montecarlo', strat_mc, judge_mc, render_mc, dict(quick=1000, thorough=40000),
             'integrands over 1-3 draw variables (user-defined deterministic and native types, names whose sorted '
             'order differs from their order of appearance) x R x rows; recorded generator output vs draw table vs '
             'mean over draws; seed reproducibility; non-trivial: >= 2 draw variables of different types, '
             'appearance order != sorted order, R >= 3', max_skip_fraction=0.3),
    SubCheck('integrate', strat_integrate, judge_integrate,
             lambda c: refsem.render(c['roots'][0])[:400], dict(quick=500, thorough=20000),
             'g(w) x normal density, g in {polynomial, exp of concave quadratic, logistic of linear, mixed} with '
             'data/parameter coefficients, vs scipy quad; non-trivial: contains a parameter', max_skip_fraction=0.3),
    SubCheck('derive', strat_derive, judge_derive,
             lambda c: refsem.render(c['roots'][0], c['shared'])[:400], dict(quick=800, thorough=30000),
             'Derive(random differentiable tree, name) w.r.t. a parameter or a variable vs reference jets; '
             'non-trivial: non-zero derivative, >= 5 nodes', max_skip_fraction=0.6),
]
RULE = ' | '.join(f'{s.name}: {s.rule}' for s in SUBCHECKS)
