"""C07 Estimation returns a feasible point that is a maximum of the stated likelihood."""
from __future__ import annotations

import math

import numpy as np
from hypothesis import strategies as st

from .. import build, gen, isolate
from .. import estimation_common as ec
from ..runner import Outcome, SubCheck

PROPERTY = 'C07'
LEVEL = 'exploration'
ASSUMPTIONS = [
    'concave problems only: weighted multinomial logit, linear in parameters, data simulated from the spec\'s seed; '
    'the reference log likelihood, gradient, Hessian and BHHH are numpy closed forms, the reference maximiser is '
    'L-BFGS-B polished by projected Newton',
    'stationarity and agreement between algorithms are asserted only when the algorithm reports convergence and the '
    'reference Hessian on the free coordinates is negative definite with condition number below 1e8',
    'bound-aware algorithms: scipy, simple_bounds, simple_bounds_newton, simple_bounds_BFGS, automatic; the line-search and '
    'trust-region algorithms document that they ignore bounds and are only run on problems without bounds',
    'tolerances: recomputed likelihood 1e-9 relative; derivatives 1e-6 relative; projected gradient 1e-3 x scale; maximum '
    'value across algorithms 1e-5 (1 + |L|)',
]
BUDGETS = dict(quick=dict(shards=8), thorough=dict(shards=16))

BOUND_AWARE = ['scipy', 'simple_bounds', 'simple_bounds_newton', 'simple_bounds_BFGS', 'automatic']
UNBOUNDED_ONLY = ['LS-newton', 'TR-newton', 'LS-BFGS', 'TR-BFGS']


@st.composite
def strat(draw, tier):
    big = tier == 'thorough'
    spec = draw(ec.logit_problems(tier))
    kind = draw(st.sampled_from(['none', 'none', 'inactive', 'active', 'one_sided', 'active']))
    spec['bounds_kind'] = kind
    if kind != 'none':
        ref = ec.Reference(spec)
        xs = ref.solve()
        if np.max(np.abs(xs)) > 15:
            # (quasi-)separated data: the maximum is at infinity; no bounds are derived from it
            spec['bounds_kind'] = kind = 'none'
        for pos, i in enumerate(ref.free_sorted if kind != 'none' else []):
            p = spec['params'][i]
            r = draw(st.floats(0, 1))
            if kind == 'inactive':
                p[2], p[3] = float(np.floor(xs[pos] - 3)), float(np.ceil(xs[pos] + 3))
            elif kind == 'one_sided':
                if r < 0.5:
                    p[2] = float(np.floor(xs[pos] - 2))
                else:
                    p[3] = float(np.ceil(xs[pos] + 2))
            elif kind == 'active' and (pos == 0 or r < 0.4):
                # the unconstrained optimum is cut off
                if r < 0.2 or pos == 0 and r < 0.7:
                    p[3] = float(np.round(xs[pos] - 0.25 - r, 2))
                    p[2] = p[3] - 5.0 if draw(st.booleans()) else None
                else:
                    p[2] = float(np.round(xs[pos] + 0.25 + r, 2))
                    p[3] = p[2] + 5.0 if draw(st.booleans()) else None
            # feasible starting value
            lo = -np.inf if p[2] is None else p[2]
            hi = np.inf if p[3] is None else p[3]
            p[1] = float(min(max(p[1], lo), hi))
    pool = BOUND_AWARE if kind != 'none' else BOUND_AWARE + UNBOUNDED_ONLY
    n_alg = len(pool) if big else draw(st.integers(3, 4))
    spec['algorithms'] = list(draw(st.permutations(pool)))[:n_alg]
    spec['quick_estimate'] = draw(st.sampled_from([False, False, False, True]))
    # estimate(run_bootstrap=True) with a few replications, then the SAME object is used again
    spec['bootstrap'] = (not spec['quick_estimate']) and draw(st.sampled_from([0, 0, 0, 2, 3]))
    # an iteration limit that the main run may hit (estimation continued later)
    spec['max_iterations'] = draw(st.sampled_from([500, 500, 500, 2, 3])) if spec['bootstrap'] else 500
    return spec


def _arr(x):
    return None if x is None else np.asarray(x, dtype=float).tolist()


def _new_biogeme(spec, algorithm, no_bootstrap=False):
    import biogeme.biogeme as bio
    from biogeme.parameters import Parameters

    loglike, weight = ec.build_model(spec)
    formulas = {'log_like': loglike}
    if weight is not None:
        formulas['weight'] = weight
    params = Parameters()
    params.set_value(name='optimization_algorithm', value=algorithm)
    params.set_value(name='number_of_threads', value=1)
    params.set_value(name='tolerance', value=1e-7)
    params.set_value(name='max_iterations', value=int(spec.get('max_iterations', 500)))
    if spec.get('bootstrap') and not no_bootstrap:
        params.set_value(name='bootstrap_samples', value=int(spec['bootstrap']))
    the = bio.BIOGEME(build.build_database(ec.table_of(spec)), formulas, parameters=params)
    the.modelName = 'verif_c07'
    the.save_iterations = False
    the.generate_html = False
    the.generate_pickle = False
    return the, loglike


def _observe(spec):
    from biogeme.expressions import TypeOfElementaryExpression as T

    out = {}
    for algo in spec['algorithms']:
        the, loglike = _new_biogeme(spec, algo)
        one = {'names': list(the.free_beta_names)}
        x0 = [the.id_manager.free_betas.expressions[n].initValue for n in the.free_beta_names]
        one['x0'] = x0
        one['init_like'] = float(the.calculate_likelihood(x0, scaled=False))
        try:
            np.random.seed(spec['data_seed'] % 1000)
            r = the.quick_estimate() if spec['quick_estimate'] else the.estimate(run_bootstrap=bool(spec.get('bootstrap')))
        except Exception as e:  # noqa: reported, the judge decides
            one['raised'] = (type(e).__name__, str(e)[:300])
            out[algo] = one
            if type(e).__name__ == 'RuntimeError':
                break
            continue
        one['beta'] = {n: float(v) for n, v in zip(r.data.betaNames, r.data.betaValues)}
        one['get_beta_values'] = {k: float(v) for k, v in r.get_beta_values().items()}
        one['logLike'] = float(r.data.logLike)
        one['initLogLike'] = None if r.data.initLogLike is None else float(r.data.initLogLike)
        one['g'], one['H'], one['bhhh'] = _arr(r.data.g), _arr(r.data.H), _arr(r.data.bhhh)
        one['convergence'] = bool(r.data.convergence)
        # the estimated object is used again (simulation / likelihood at the estimates)
        xs_ = [one['beta'][n] for n in the.free_beta_names]
        one['same_object_like'] = float(the.calculate_likelihood(xs_, scaled=False))
        sim_ = the.simulate(one['beta'])
        one['same_object_sim'] = np.asarray(sim_['log_like'], dtype=float).tolist()
        one['bootstrap_shape'] = None if r.data.bootstrap is None else list(np.asarray(r.data.bootstrap).shape)
        if spec.get('bootstrap'):
            # the same estimation without bootstrapping (fresh object): what is reported about the main run must not differ
            twin, _ = _new_biogeme(spec, algo, no_bootstrap=True)
            np.random.seed(spec['data_seed'] % 1000)
            rt = twin.estimate()
            msg = lambda m: {k_: str(v_) for k_, v_ in (m or {}).items() if 'time' not in k_.lower()}
            one['twin'] = dict(convergence=bool(rt.data.convergence), beta={n: float(v) for n, v in zip(rt.data.betaNames, rt.data.betaValues)},
                               logLike=float(rt.data.logLike), messages=msg(rt.data.optimizationMessages))
            one['messages'] = msg(r.data.optimizationMessages)
        one['has_converged'] = bool(r.algorithm_has_converged())
        free = loglike.dict_of_elementary_expression(T.FREE_BETA)
        fixed = loglike.dict_of_elementary_expression(T.FIXED_BETA)
        one['free_init_after'] = {n: float(b.initValue) for n, b in free.items()}
        one['fixed_init_after'] = {n: float(b.initValue) for n, b in fixed.items()}
        # recompute at the returned point on a fresh object
        fresh, _ = _new_biogeme(spec, algo)
        x = [one['beta'][n] for n in fresh.free_beta_names] if list(fresh.free_beta_names) == one['names'] else None
        if x is not None:
            one['fresh_like'] = float(fresh.calculate_likelihood(x, scaled=False))
            d = fresh.calculate_likelihood_and_derivatives(x, scaled=False, hessian=True, bhhh=True)
            one['fresh'] = dict(g=_arr(d.gradient), h=_arr(d.hessian), b=_arr(d.bhhh))
        out[algo] = one
    return out


def judge(spec) -> Outcome:
    out = Outcome()
    ref = ec.Reference(spec)
    names = ref.free_names
    k = len(names)
    bounds = ref.bounds()
    lo = np.array([-np.inf if l is None else l for l, _ in bounds])
    hi = np.array([np.inf if u is None else u for _, u in bounds])
    xs = ref.solve()
    if np.max(np.abs(xs)) > 15:
        out.skipped = 'degenerate problem: the maximum of the likelihood is at infinity (separated data)'
        return out
    Ls, Gs, Hs, _ = ref.derivatives(xs)
    active = (xs <= lo + 1e-9) | (xs >= hi - 1e-9)
    fr = ~active
    well = False
    if fr.any():
        ev = np.linalg.eigvalsh(-Hs[np.ix_(fr, fr)])
        well = ev.min() > 1e-8 and ev.max() / ev.min() < 1e8
    else:
        well = True
    out.classes += [f'bounds={spec["bounds_kind"]}', 'active_at_optimum' if active.any() else 'interior_optimum',
                    'well_conditioned' if well else 'ill_conditioned', f'free={k}',
                    'quick_estimate' if spec['quick_estimate'] else 'estimate', 'bootstrap' if spec.get('bootstrap') else 'no_bootstrap',
                    f'max_iterations={spec.get("max_iterations", 500)}']
    res = isolate.call(_observe, spec, timeout=600)
    if not res['ok']:
        out.fail(f'raises:{res["exc_type"]}', f'estimation harness raised {res["exc_type"]}: {res["exc_msg"][:300]}')
        return out
    o = res['value']
    converged_values = {}
    scale = 1 + abs(Ls)
    for algo in spec['algorithms']:
        one = o.get(algo)
        if one is None:
            continue
        out.classes.append(f'algorithm={algo}')
        where = f' [{algo}, bounds {spec["bounds_kind"]}, parameters {spec["params"]}, {spec["n_rows"]} rows, seed {spec["data_seed"]}]'
        if 'raised' in one:
            out.fail(f'{algo}:raises:{one["raised"][0]}', f'estimate() raised {one["raised"]}' + where)
            continue
        if one['names'] != names:
            out.fail(f'{algo}:names', f'free_beta_names {one["names"]} vs {names}')
            continue
        x = np.array([one['beta'][n] for n in names])
        # bounds
        if algo in BOUND_AWARE and not (np.all(x >= lo - 1e-12) and np.all(x <= hi + 1e-12)):
            out.fail(f'{algo}:bounds', f'estimates {dict(zip(names, x.tolist()))} violate the bounds {bounds}' + where)
        # likelihood bookkeeping
        L_ref = ref.loglike(x)
        if not abs(one['logLike'] - L_ref) <= 1e-9 * (1 + abs(L_ref)):
            out.fail(f'{algo}:final_loglike', f'reported final log likelihood {one["logLike"]!r}, likelihood at the returned '
                                              f'estimates is {L_ref!r}' + where)
        if 'fresh_like' in one and not abs(one['logLike'] - one['fresh_like']) <= 1e-9 * (1 + abs(L_ref)):
            out.fail(f'{algo}:final_loglike_fresh', f'reported {one["logLike"]!r}, a fresh object gives {one["fresh_like"]!r} '
                                                    f'at the returned estimates' + where)
        tag = ':after_bootstrap' if spec.get('bootstrap') else ''
        if not abs(one['same_object_like'] - L_ref) <= 1e-9 * (1 + abs(L_ref)):
            out.fail(f'{algo}:same_object_likelihood{tag}', f'after the estimation the same BIOGEME object computes {one["same_object_like"]!r} at the estimates; the likelihood there is {L_ref!r}' + where)
        ll_rows = ref.per_obs(x)[0]
        if len(one['same_object_sim']) != len(ll_rows) or not np.all(np.abs(np.asarray(one['same_object_sim']) - ll_rows) <= 1e-9 * (1 + np.abs(ll_rows))):
            out.fail(f'{algo}:same_object_simulate{tag}', f'after the estimation simulate() of the same object returns {one["same_object_sim"][:4]}..., the per-observation values at the estimates are {ll_rows[:4].tolist()}...' + where)
        if 'twin' in one:
            tw = one['twin']
            if tw['beta'] != one['beta'] or tw['logLike'] != one['logLike']:
                out.fail(f'{algo}:bootstrap_changes_estimates', f'estimates with bootstrapping {one["beta"]} (log likelihood {one["logLike"]!r}), '
                                                                f'without {tw["beta"]} ({tw["logLike"]!r})' + where)
            elif tw['convergence'] != one['convergence'] or tw['messages'] != one['messages']:
                out.fail(f'{algo}:bootstrap_changes_diagnostics',
                         f'with bootstrapping the run reports convergence={one["convergence"]}, {one["messages"]}; the same estimation without '
                         f'bootstrapping reports convergence={tw["convergence"]}, {tw["messages"]}' + where)
        if spec.get('bootstrap') and one['bootstrap_shape'] != [int(spec['bootstrap']), k]:
            out.fail(f'{algo}:bootstrap_shape', f'bootstrap sample of shape {one["bootstrap_shape"]}')
        L0 = ref.loglike(np.array(one['x0']))
        if not abs(one['init_like'] - L0) <= 1e-9 * (1 + abs(L0)):
            out.fail(f'{algo}:init_loglike_value', f'likelihood at the starting values {one["init_like"]!r} vs {L0!r}' + where)
        if not spec['quick_estimate']:
            if one['initLogLike'] is None or not abs(one['initLogLike'] - L0) <= 1e-9 * (1 + abs(L0)):
                out.fail(f'{algo}:init_loglike', f'reported initial log likelihood {one["initLogLike"]!r} vs {L0!r}' + where)
        if not one['logLike'] >= L0 - 1e-9 * (1 + abs(L0)):
            out.fail(f'{algo}:decrease', f'final log likelihood {one["logLike"]!r} is below the initial one {L0!r}' + where)
        if one['get_beta_values'] != one['beta']:
            out.fail(f'{algo}:get_beta_values', f'{one["get_beta_values"]} vs raw {one["beta"]}')
        # reported derivatives are those at the returned point
        if not spec['quick_estimate']:
            _, G, H, B = ref.derivatives(x)
            gsc = 1e-6 * (1 + np.abs(ref.w[:, None] * ref.per_obs(x)[1]).sum())
            for nm_, got, want in (('g', one['g'], G), ('H', one['H'], H), ('bhhh', one['bhhh'], B)):
                gv = None if got is None else np.asarray(got, dtype=float)
                tol = gsc * (1 if nm_ == 'g' else 10)
                if gv is None or gv.shape != want.shape or not np.all(np.abs(gv - want) <= tol):
                    out.fail(f'{algo}:reported_{nm_}', f'reported {nm_} = {got} is not the {nm_} of the likelihood at the '
                                                       f'returned estimates ({want.tolist()})' + where)
            # write-back of the estimates into the formulas
            for n_, v in one['beta'].items():
                if one['free_init_after'].get(n_) != v:
                    out.fail(f'{algo}:write_back', f'after estimate() the starting value of {n_!r} is '
                                                   f'{one["free_init_after"].get(n_)!r}, the estimate is {v!r}' + where)
                    break
        for i, p in enumerate(spec['params']):
            if p[4] != 0:
                if one.get('fixed_init_after', {}).get(p[0], p[1]) != p[1] and not spec['quick_estimate']:
                    out.fail(f'{algo}:fixed_touched', f'fixed parameter {p[0]!r} changed from {p[1]!r} to '
                                                      f'{one["fixed_init_after"].get(p[0])!r}' + where)
                if p[0] in one['beta']:
                    out.fail(f'{algo}:fixed_in_results', f'fixed parameter {p[0]!r} appears among the estimates' + where)
        # optimality when convergence is claimed on a well-conditioned concave problem
        if one['has_converged'] and well and (algo in BOUND_AWARE or spec['bounds_kind'] == 'none'):
            _, G, _, _ = ref.derivatives(x)
            gscale = 1e-3 * (1 + np.abs(ref.w[:, None] * ref.per_obs(x)[1]).sum() / max(1, len(ref.w)) * 1.0) * max(1.0, math.sqrt(len(ref.w)))
            for i in range(k):
                at_lo = x[i] <= lo[i] + 1e-7
                at_hi = x[i] >= hi[i] - 1e-7
                gi = G[i]
                ok = abs(gi) <= gscale or (at_lo and gi <= gscale) or (at_hi and gi >= -gscale)
                if not ok:
                    out.fail(f'{algo}:stationarity',
                             f'convergence reported but dL/d{names[i]} = {gi!r} at the estimates (bounds '
                             f'{bounds[i]}, value {x[i]!r}); projected gradient must vanish' + where)
                    break
            converged_values[algo] = one['logLike']
            if not one['logLike'] >= Ls - 1e-5 * scale:
                out.fail(f'{algo}:not_maximum', f'convergence reported at log likelihood {one["logLike"]!r} but the maximum '
                                                f'under the bounds is {Ls!r}' + where)
    if len(converged_values) >= 2:
        vals = list(converged_values.values())
        if max(vals) - min(vals) > 1e-5 * scale:
            out.fail('algorithms_disagree', f'converged algorithms report different maxima: {converged_values}')
    out.nontrivial = bool(converged_values) and k >= 2 and (active.any() or len(converged_values) >= 4)
    out.evaluations = len(spec['algorithms'])
    return out


# ---------------------------------------------------------------------------------------------
# a second family: linear regression with normal errors (likelihood undefined for sigma <= 0)

TR_BOUNDS = ['simple_bounds', 'simple_bounds_newton', 'simple_bounds_BFGS', 'automatic']


@st.composite
def strat_regression(draw, tier):
    names = draw(st.lists(st.sampled_from(ec.PARAM_NAMES), min_size=3, max_size=3, unique=True))
    spec = dict(names=names,  # intercept, slope, sigma
                true=[draw(gen.dyadic(-2, 2, 2)), draw(gen.dyadic(-2, 2, 2)), draw(st.sampled_from([0.25, 0.5, 1.0]))],
                start=[draw(gen.dyadic(-1, 1, 2)), draw(gen.dyadic(-1, 1, 2)), draw(st.sampled_from([1.0, 2.0, 5.0, 8.0]))],
                n_rows=draw(st.integers(20, 80)), data_seed=draw(st.integers(0, 10**6)),
                sigma_bound=draw(st.sampled_from(['positive', 'positive', 'none'])))
    # without a bound on sigma the likelihood is NaN in part of the domain: only the algorithms that evaluate their trial
    # points (trust region with bounds) are run there, plus scipy (see known findings)
    pool = BOUND_AWARE if spec['sigma_bound'] == 'positive' else TR_BOUNDS + ['scipy']
    spec['algorithms'] = list(draw(st.permutations(pool)))[:3 if tier == 'quick' else len(pool)]
    return spec


def _regression_data(spec):
    rs = np.random.RandomState(spec['data_seed'])
    x = np.round(rs.normal(size=spec['n_rows']), 3)
    y = np.round(spec['true'][0] + spec['true'][1] * x + spec['true'][2] * rs.normal(size=spec['n_rows']), 3)
    return x, y


def _regression_reference(spec, point):
    """(L, gradient, Hessian, BHHH) in the order (intercept, slope, sigma)."""
    x, y = _regression_data(spec)
    a, b, sg = point
    r = y - a - b * x
    ll = -np.log(sg) - 0.5 * r * r / sg**2
    g = np.stack([r / sg**2, r * x / sg**2, -1 / sg + r * r / sg**3], axis=1)
    H = np.zeros((3, 3))
    H[0, 0] = np.sum(-1 / sg**2 + 0 * x)
    H[0, 1] = H[1, 0] = np.sum(-x / sg**2)
    H[1, 1] = np.sum(-x * x / sg**2)
    H[0, 2] = H[2, 0] = np.sum(-2 * r / sg**3)
    H[1, 2] = H[2, 1] = np.sum(-2 * r * x / sg**3)
    H[2, 2] = np.sum(1 / sg**2 - 3 * r * r / sg**4)
    return float(ll.sum()), g.sum(0), H, g.T @ g, g


def _observe_regression(spec):
    import biogeme.biogeme as bio
    import pandas as pd
    import biogeme.database as db
    from biogeme.expressions import Beta, Variable, log
    from biogeme.parameters import Parameters

    x, y = _regression_data(spec)
    out = {}
    for algo in spec['algorithms']:
        na, nb, ns = spec['names']
        a = Beta(na, spec['start'][0], None, None, 0)
        b = Beta(nb, spec['start'][1], None, None, 0)
        sg = Beta(ns, spec['start'][2], 1e-3 if spec['sigma_bound'] == 'positive' else None, None, 0)
        res_ = (Variable('y') - a - b * Variable('x')) / sg
        loglike = -log(sg) - 0.5 * res_ * res_
        params = Parameters()
        params.set_value(name='optimization_algorithm', value=algo)
        params.set_value(name='number_of_threads', value=1)
        params.set_value(name='max_iterations', value=500)
        the = bio.BIOGEME(db.Database('reg', pd.DataFrame({'x': x, 'y': y})), loglike, parameters=params)
        the.modelName = 'verif_c07r'
        the.save_iterations = the.generate_html = the.generate_pickle = False
        one = {'names': list(the.free_beta_names)}
        try:
            r = the.estimate()
        except Exception as e:  # noqa: reported, the judge decides
            one['raised'] = (type(e).__name__, str(e)[:300])
            out[algo] = one
            if type(e).__name__ == 'RuntimeError':
                break
            continue
        one['beta'] = {n: float(v) for n, v in zip(r.data.betaNames, r.data.betaValues)}
        one['logLike'] = float(r.data.logLike)
        one['initLogLike'] = float(r.data.initLogLike)
        one['g'], one['H'], one['bhhh'] = _arr(r.data.g), _arr(r.data.H), _arr(r.data.bhhh)
        one['has_converged'] = bool(r.algorithm_has_converged())
        one['init_after'] = {n_: float(e_.initValue) for n_, e_ in ((na, a), (nb, b), (ns, sg))}
        out[algo] = one
    return out


def judge_regression(spec) -> Outcome:
    out = Outcome()
    names = spec['names']
    order = sorted(range(3), key=lambda i: names[i])
    tag = '[nan_region]' if spec['sigma_bound'] == 'none' else ''
    out.classes += [f'sigma_bound={spec["sigma_bound"]}', f'sigma_start={spec["start"][2]}']
    res = isolate.call(_observe_regression, spec, timeout=600)
    if not res['ok']:
        out.fail(f'{tag}regression:raises:{res["exc_type"]}', f'estimation harness raised {res["exc_type"]}: {res["exc_msg"][:300]}')
        return out
    L0 = _regression_reference(spec, spec['start'])[0]
    for algo in spec['algorithms']:
        one = res['value'].get(algo)
        if one is None:
            continue
        out.classes.append(f'algorithm={algo}')
        where = (f' [{algo}; regression y = {names[0]} + {names[1]} x + {names[2]} eps; start {spec["start"]}; truth {spec["true"]}; '
                 f'{spec["n_rows"]} rows, seed {spec["data_seed"]}; bound on sigma: {spec["sigma_bound"]}]')
        if 'raised' in one:
            out.fail(f'{tag}{algo}:regression:raises:{one["raised"][0]}', f'estimate() raised {one["raised"]}' + where)
            continue
        pt = [one['beta'].get(n) for n in names]
        if any(v is None or not math.isfinite(v) for v in pt) or not math.isfinite(one['logLike']):
            out.fail(f'{tag}{algo}:regression:not_finite', f'estimates {one["beta"]}, final log likelihood {one["logLike"]!r}' + where)
            continue
        if spec['sigma_bound'] == 'positive' and pt[2] < 1e-3 - 1e-12:
            out.fail(f'{tag}{algo}:regression:bounds', f'sigma = {pt[2]!r} below its bound 0.001' + where)
            continue
        if pt[2] <= 0:
            out.fail(f'{tag}{algo}:regression:undefined_point', f'returned sigma = {pt[2]!r} where the likelihood is undefined; '
                                                                f'reported final log likelihood {one["logLike"]!r}' + where)
            continue
        L, G, H, B, _ = _regression_reference(spec, pt)
        if not abs(one['logLike'] - L) <= 1e-9 * (1 + abs(L)):
            out.fail(f'{tag}{algo}:regression:final_loglike', f'reported {one["logLike"]!r}, likelihood at the estimates {L!r}' + where)
        if not abs(one['initLogLike'] - L0) <= 1e-9 * (1 + abs(L0)):
            out.fail(f'{tag}{algo}:regression:init_loglike', f'reported initial {one["initLogLike"]!r} vs {L0!r}' + where)
        if not one['logLike'] >= L0 - 1e-9 * (1 + abs(L0)):
            out.fail(f'{tag}{algo}:regression:decrease', f'final log likelihood {one["logLike"]!r} is below the initial one {L0!r}' + where)
        ix = np.array(order)
        scale = 1e-6 * (1 + np.abs(_regression_reference(spec, pt)[4]).sum())
        for nm_, got, want in (('g', one['g'], G[ix]), ('H', one['H'], H[np.ix_(ix, ix)]), ('bhhh', one['bhhh'], B[np.ix_(ix, ix)])):
            gv = None if got is None else np.asarray(got, dtype=float)
            big = scale * (1 if nm_ == 'g' else 100 / min(1.0, pt[2])**2)
            if gv is None or gv.shape != want.shape or not np.all(np.abs(gv - want) <= big):
                out.fail(f'{tag}{algo}:regression:reported_{nm_}', f'reported {nm_} = {got} vs {want.tolist()} at the estimates' + where)
        if one['init_after'] != one['beta']:
            out.fail(f'{tag}{algo}:regression:write_back', f'starting values after estimate() {one["init_after"]} vs estimates {one["beta"]}' + where)
        if one['has_converged']:
            out.nontrivial = True
    out.evaluations = len(spec['algorithms'])
    return out


def render(spec):
    return (f'logit {spec["alts"]} params {spec["params"]} terms {spec["terms"]} rows {spec["n_rows"]} '
            f'weights {spec["weights"]} bounds {spec["bounds_kind"]} algorithms {spec["algorithms"]} '
            f'{"quick_estimate" if spec["quick_estimate"] else "estimate"}')[:600]


SUBCHECKS = [
    SubCheck('estimation', strat, judge, render, dict(quick=640, thorough=8000),
             'simulated weighted multinomial-logit problems (2-4 alternatives with arbitrary labels, 2-4 free parameters with '
             'adversarial names, optional fixed parameter, 25-60 rows) x bound configurations {none, inactive, one-sided, '
             'active at the optimum} x 3-4 (thorough: all) algorithm names x estimate/quick_estimate; non-trivial: convergence '
             'reported, >= 2 free parameters, and an active bound or >= 4 algorithms compared', max_skip_fraction=0.2),
    SubCheck('regression', strat_regression, judge_regression,
             lambda c: f"regression {c['names']} start {c['start']} truth {c['true']} rows {c['n_rows']} sigma bound {c['sigma_bound']} {c['algorithms']}",
             dict(quick=160, thorough=3000),
             'linear regression with normal errors (not a logit, not concave in sigma): sigma bounded below by 0.001 (all '
             'bound-aware algorithms) or unbounded, so that the likelihood is undefined for trial points with sigma <= 0 '
             '(trust-region-with-bounds family and scipy): finite feasible estimates, final = recomputed >= initial, reported '
             'g/H/BHHH, write-back; non-trivial: convergence reported', max_skip_fraction=0.2),
]
RULE = ' | '.join(f'{s.name}: {s.rule}' for s in SUBCHECKS)
