"""C09 Panel likelihood is the product over each individual's rows, with shared draws."""
from __future__ import annotations

import math

import numpy as np
from hypothesis import strategies as st

from .. import build, gen, isolate, refsem
from ..runner import Outcome, SubCheck
from .c01 import tol
from .c10 import user_series, _substitute

PROPERTY = 'C09'
LEVEL = 'exploration'
ASSUMPTIONS = [
    'the rows of an individual are identified through the id column of Database.data as it stands after panel() '
    '(the library may re-sort the table; the oracle reads the table back and groups by id itself)',
    'draw variables use user-defined deterministic generators whose value is an affine function of (individual position, '
    'draw index), so the draw shared by all rows of an individual is known exactly',
    'trajectory arguments are strictly positive formulas (probability-like), so products stay well-conditioned',
]
BUDGETS = dict(quick=dict(shards=8), thorough=dict(shards=16))
ID_NAMES = ['ID', 'id', 'Person', 'hh_10', 'hh_2', 'P']


@st.composite
def strat(draw, tier):
    big = tier == 'thorough'
    n_ind = draw(st.integers(1, 8 if big else 6))
    sizes = [draw(st.integers(1, 5 if big else 4)) for _ in range(n_ind)]
    if n_ind >= 2 and draw(st.booleans()):
        sizes[draw(st.integers(0, n_ind - 1))] = 1
    n = sum(sizes)
    id_kind = draw(st.sampled_from(['small_int', 'negative', 'float', 'large']))
    pool = {'small_int': st.integers(0, 50), 'negative': st.integers(-40, 10),
            'float': st.integers(-40, 40).map(lambda k: k / 4 + 0.5), 'large': st.integers(10**6, 10**6 + 500)}[id_kind]
    ids = draw(st.lists(pool, min_size=n_ind, max_size=n_ind, unique=True))
    table, info = draw(gen.tables(min_rows=n, max_rows=n, with_choice=draw(st.booleans())))
    id_name = draw(st.sampled_from([x for x in ID_NAMES if x not in {c[0] for c in table['columns']}]))
    id_col = [ids[i] for i, s in enumerate(sizes) for _ in range(s)]
    interleave = n_ind >= 2 and n >= 3 and draw(st.floats(0, 1)) < 0.12
    if interleave:
        # break the contiguity of one individual's block
        cand = [i for i, s in enumerate(sizes) if s >= 2]
        if cand:
            i = draw(st.sampled_from(cand))
            start = sum(sizes[:i])
            other = (start + sizes[i]) % n if (start + sizes[i]) < n else 0
            if id_col[other] != id_col[start]:
                id_col[start], id_col[other] = id_col[other], id_col[start]
            else:
                interleave = False
        else:
            interleave = False
    groups = 1 + sum(1 for a_, b_ in zip(id_col, id_col[1:]) if a_ != b_)
    interleave = groups != len(set(id_col))
    if interleave:
        sizes = None
    else:
        # run lengths of the id column as it finally stands
        sizes = []
        for a_, b_ in zip([None] + id_col, id_col):
            if a_ != b_:
                sizes.append(1)
            else:
                sizes[-1] += 1
    table['columns'].insert(draw(st.integers(0, len(table['columns']))),
                            [id_name, 'float' if id_kind == 'float' else draw(st.sampled_from(['int', 'float'])), id_col])
    # trajectory argument: strictly positive
    n_draw_vars = draw(st.integers(0, 2))
    placeholders = [f'__d{i}' for i in range(n_draw_vars)]
    dnames = draw(st.lists(st.sampled_from(['xi', 'Xi', 'omega', 'EC', 'b_rnd', 'z1']), min_size=n_draw_vars,
                           max_size=n_draw_vars, unique=True))
    user_types = {}
    dtypes = []
    for i in range(n_draw_vars):
        t = draw(st.sampled_from(['MYGEN', 'mygen', 'GEN_B']))
        user_types.setdefault(t, [draw(gen.dyadic(-1, 1)), draw(gen.dyadic(-1, 1, 16)), draw(gen.dyadic(-1, 1, 16)), 'float',
                                  draw(st.sampled_from([0.0, 0.125, -0.0625]))])
        dtypes.append(t)
    info2 = dict(info)
    info2['real'] = list(info['real']) + placeholders * 2
    g = gen.TreeGen(draw, info2, max_betas=3, max_nodes=20, logit=info.get('choice') is not None, sharing=False,
                    differentiable=True)
    g.not_in_linutil = set(placeholders)
    form = draw(st.sampled_from(['exp', 'logit_prob', 'pos']))
    if form == 'exp' or (form == 'logit_prob' and info.get('choice') is None):
        arg = ['exp', ['Times', ['Num', 0.25], g.real(draw(st.integers(1, 3)))]]
    elif form == 'logit_prob':
        arg = ['exp', g._loglogit(2)]
    else:
        arg = g.pos(draw(st.integers(1, 3)))
    mapping = {p: (dnames[i], dtypes[i]) for i, p in enumerate(placeholders)}
    used = {x[1] for x in refsem.walk(arg, []) if x[0] == 'Var' and x[1] in mapping}
    for p in placeholders:
        if p not in used:
            arg = ['Times', arg, ['exp', ['Times', ['Num', 0.125], ['Var', p]]]]
    arg = _substitute(arg, mapping)
    traj = ['PanelTraj', arg]
    if n_draw_vars:
        root = ['MonteCarlo', traj]
        if draw(st.booleans()):
            root = ['log', root]
    else:
        root = ['log', traj] if draw(st.booleans()) else traj
    edit_drop = draw(st.one_of(st.none(), st.none(), st.lists(st.integers(0, 40), min_size=1, max_size=3)))
    perm_blocks = list(draw(st.permutations(list(range(n_ind)))))
    within_seed = draw(st.integers(0, 10**6))
    return dict(table=table, id_name=id_name, sizes=sizes, roots=[root], shared=[], betas={}, overloads=draw(st.booleans()),
                draws=[[dnames[i], dtypes[i]] for i in range(n_draw_vars)], user_types=user_types,
                R=draw(st.integers(1, 5)) * 2, interleaved=interleave, perm_blocks=perm_blocks, within_seed=within_seed,
                np_seed=0, edit_drop=None if n_draw_vars else edit_drop,
                prelude=bool(n_draw_vars) and draw(st.booleans()), catalog=draw(st.booleans()))


def _permuted_table(case):
    """Blocks in another order and rows permuted inside each block (only for contiguous tables)."""
    cols = case['table']['columns']
    n = len(cols[0][2])
    starts = np.cumsum([0] + case['sizes'])
    rs = np.random.RandomState(case['within_seed'])
    order = []
    for b in case['perm_blocks']:
        idx = list(range(starts[b], starts[b + 1]))
        rs.shuffle(idx)
        order += idx
    return dict(columns=[[name, dt, [vals[i] for i in order]] for name, dt, vals in cols])


def _evaluate(case, table):
    import biogeme.biogeme as bio
    from biogeme.parameters import Parameters

    database = build.build_database(table)
    rng = {}
    for t, const in case['user_types'].items():
        def make(const=const):
            return lambda sample_size, number_of_draws: user_series(const, sample_size, number_of_draws)
        rng[t] = (make(), f'user {t}')
    if rng:
        database.set_random_number_generators(rng)
    if case.get('prelude') and case['draws']:
        # the same draw variables are first used per observation, before the data are declared as panel
        import biogeme.expressions as ex

        pre = ex.MonteCarlo(ex.bioMultSum([ex.bioDraws(n_, t_) for n_, t_ in case['draws']]))
        pre.get_value_c(database=database, number_of_draws=case['R'], prepare_ids=True)
    database.panel(case['id_name'])
    res = dict(map=np.asarray(database.individualMap, dtype=float).tolist(),
               map_index=[float(i) for i in database.individualMap.index],
               sample_size=int(database.get_sample_size()),
               n_obs=int(database.get_number_of_observations()),
               data={c: np.asarray(database.data[c], dtype=float).tolist() for c in database.data.columns})
    e = build.Builder([], overloads=case['overloads']).build(case['roots'][0])
    res['values'] = np.asarray(e.get_value_c(database=database, number_of_draws=case['R'], prepare_ids=True),
                               dtype=float).tolist()
    res['data_after'] = {c: np.asarray(database.data[c], dtype=float).tolist() for c in database.data.columns}
    root_ = case['roots'][0]
    traj_ = root_ if root_[0] == 'PanelTraj' else (root_[1] if root_[0] == 'log' and root_[1][0] == 'PanelTraj' else None)
    if case.get('catalog') and traj_ is not None:
        # the trajectory is the selected alternative of a catalog (specification search over trajectories)
        from biogeme.catalog import Catalog
        from biogeme.expressions import log as _log

        bld = build.Builder([], overloads=case['overloads'])
        cat = Catalog.from_dict('c09_specification', {'first': bld.build(traj_), 'second': bld.build(traj_)})
        full = cat if root_[0] == 'PanelTraj' else _log(cat)
        res['values_through_catalog'] = np.asarray(full.get_value_c(database=database, number_of_draws=case['R'], prepare_ids=True),
                                                   dtype=float).tolist()
    if case.get('edit_drop') and len(database.data) >= 2:
        # the public table is edited with pandas after panel(): the map must follow at the next evaluation
        n_rows = len(database.data)
        drop = sorted({i % n_rows for i in case['edit_drop']})[: n_rows - 1]
        database.data = database.data.drop(index=database.data.index[drop])
        e_b = build.Builder([], overloads=case['overloads']).build(case['roots'][0])
        res['edit'] = dict(values=np.asarray(e_b.get_value_c(database=database, number_of_draws=case['R'], prepare_ids=True),
                                             dtype=float).tolist(),
                           data={c: np.asarray(database.data[c], dtype=float).tolist() for c in database.data.columns},
                           map_index=[float(i) for i in database.individualMap.index])
        return res
    e2 = build.Builder([], overloads=case['overloads']).build(case['roots'][0])
    params = Parameters()
    params.set_value(name='number_of_draws', value=case['R'])
    params.set_value(name='number_of_threads', value=case.get('threads', 1))
    the = bio.BIOGEME(database, e2, parameters=params)
    the.save_iterations = False
    the.generate_html = False
    the.generate_pickle = False
    x = [the.id_manager.free_betas.expressions[n].initValue for n in the.free_beta_names]
    res['like'] = float(the.calculate_likelihood(x, scaled=False))
    res['like_scaled'] = float(the.calculate_likelihood(x, scaled=True))
    if x:
        res['like_scaled_with_derivatives'] = float(
            the.calculate_likelihood_and_derivatives(x, scaled=True, hessian=False, bhhh=False).function)
    sim = the.simulate(dict(zip(the.free_beta_names, x)))
    res['sim'] = np.asarray(sim['log_like'], dtype=float).tolist()
    res['sim_index'] = [float(i) for i in sim.index]
    return res


def _observe(case):
    res = {'A': _evaluate(case, case['table'])}
    if not case['interleaved']:
        res['B'] = _evaluate(case, _permuted_table(case))
    return res


def _reference(case, data, n_draw_names):
    """{id: EV} from the table as the library holds it (grouped by id here, independently)."""
    id_name = case['id_name']
    ids = data[id_name]
    cols = [c for c in data if c != id_name]
    order = []
    for v in ids:
        if v not in order:
            order.append(v)
    out = {}
    names_sorted = sorted(n for n, _ in case['draws'])
    type_of = dict(case['draws'])
    for pos, ident in enumerate(sorted(order)):
        rows = [{c: data[c][i] for c in data} for i in range(len(ids)) if ids[i] == ident]
        draws_by_r = None
        if names_sorted:
            R = case['R']
            draws_by_r = []
            n_ind = len(order)
            for r in range(R):
                draws_by_r.append({n: float(user_series(case['user_types'][type_of[n]], n_ind, R)[pos, r])
                                   for n in names_sorted})
        env = refsem.Env(row=rows[0], betas={}, shared=[], panel_rows=rows, draws_by_r=draws_by_r)
        v = refsem.evaluate(case['roots'][0], env, refsem.EVAlg())
        if v.e > 1e-7 * (1 + abs(v.v)):
            raise refsem.IllPosed('bound')
        out[ident] = v
    return out


def judge(case) -> Outcome:
    out = Outcome()
    id_col = next(c[2] for c in case['table']['columns'] if c[0] == case['id_name'])
    sizes = case['sizes'] or [id_col.count(v) for v in dict.fromkeys(id_col)]
    n_ind = len(set(id_col))
    sorted_order = id_col == sorted(id_col)
    out.nontrivial = n_ind >= 2 and len(set(sizes)) >= 2 and 1 in sizes and not sorted_order and not case['interleaved']
    out.classes += ['interleaved' if case['interleaved'] else 'contiguous', f'individuals={n_ind}',
                    'monte_carlo' if case['draws'] else 'no_draws', 'after_per_observation_use' if case.get('prelude') else 'fresh_database', 'ids_sorted' if sorted_order else 'ids_unsorted']
    res = isolate.call(_observe, case)
    if case['interleaved']:
        if res['ok']:
            out.fail('panel:interleaved_accepted', f'ids {id_col} are not contiguous per individual but panel() accepted them')
        elif res['exc_type'] != 'BiogemeError':
            out.fail(f'panel:interleaved_wrong_error:{res["exc_type"]}', f'{res["exc_type"]}: {res["exc_msg"][:200]}')
        return out
    prefix = ''
    for node in refsem.walk(case['roots'][0], []):
        if node[0] == 'LogLogit':
            subs = [node[1]] + [av for _, _, av in node[2] if av is not None]
            if any(m_[0] == 'Draws' for sub in subs for m_ in refsem.walk(sub, [])):
                prefix = '[draws_in_logit_availability]'
    if not res['ok']:
        out.fail(f'{prefix}panel:raises:{res["exc_type"]}', f'{res["exc_type"]}: {res["exc_msg"][:300]} for '
                                                    f'{refsem.render(case["roots"][0])[:200]} ids {id_col}')
        return out
    o = res['value']
    values_by_id = {}
    for tag in ('A', 'B'):
        r = o[tag]
        data = r['data']
        ids = data[case['id_name']]
        n = len(ids)
        distinct = []
        for v in ids:
            if v not in distinct:
                distinct.append(v)
        # (1) the map: one contiguous [first, last] block per distinct id, blocks partition 0..N-1
        m = r['map']
        if len(m) != len(distinct) or r['sample_size'] != len(distinct) or r['n_obs'] != n:
            out.fail('panel:map_size', f'{len(m)} map rows / sample size {r["sample_size"]} for {len(distinct)} individuals ({tag})')
            return out
        covered = []
        for (first, last), ident in zip(m, r['map_index']):
            first, last = int(first), int(last)
            rows_of = [i for i in range(n) if ids[i] == ident]
            if rows_of != list(range(first, last + 1)):
                out.fail('panel:map_block', f'individual {ident}: map says rows [{first},{last}], the table has it on rows {rows_of} ({tag})')
                return out
            covered += rows_of
        if sorted(covered) != list(range(n)):
            out.fail('panel:map_partition', f'blocks do not partition the rows ({tag})')
            return out
        # the table itself must still hold the same rows (as a multiset)
        orig = build.table_rows(case['table'] if tag == 'A' else _permuted_table(case))
        now = [{c: data[c][i] for c in data} for i in range(n)]
        key = lambda row: tuple(sorted(row.items()))  # noqa: E731
        if sorted(map(key, orig)) != sorted(map(key, now)):
            out.fail('panel:rows_changed', f'the rows of the table changed when it was declared panel ({tag})')
            return out
        # (2) values
        try:
            ref = _reference(case, data, None)
        except (refsem.IllPosed, OverflowError) as e:
            out.skipped = 'ill-posed: ' + str(e)[:40]
            return out
        vals = r['values']
        if len(vals) != len(distinct):
            out.fail('trajectory:length', f'{len(vals)} values for {len(distinct)} individuals ({tag})')
            return out
        for ident, v in zip(r['map_index'], vals):
            ev = ref[ident]
            if not (math.isfinite(v) and abs(v - ev.v) <= tol(ev) + 1e-12):
                out.fail('trajectory:value' + (':monte_carlo' if case['draws'] else ''),
                         f'individual {ident} ({tag}): engine {v!r} vs product over its rows'
                         f'{" averaged over draws" if case["draws"] else ""} {ev.v!r} for '
                         f'{refsem.render(case["roots"][0])[:250]}; ids {ids}')
                return out
        values_by_id[tag] = dict(zip(r['map_index'], vals))
        if 'values_through_catalog' in r and r['values_through_catalog'] != vals:
            out.fail('trajectory:through_catalog', f'the same trajectory as selected alternative of a catalog evaluates to '
                                                   f'{r["values_through_catalog"]}, directly to {vals} ({tag})')
            return out
        if 'edit' in r:
            ed = r['edit']
            try:
                ref_e = _reference(case, ed['data'], None)
            except (refsem.IllPosed, OverflowError):
                ref_e = None
            if ref_e is not None:
                if len(ed['values']) != len(ref_e) or sorted(ed['map_index']) != sorted(ref_e):
                    out.fail('edit_after_panel:individuals', f'after rows were dropped with pandas the trajectory has {len(ed["values"])} '
                                                             f'values for individuals {ed["map_index"]}; the table holds {sorted(ref_e)} ({tag})')
                else:
                    for ident, v in zip(ed['map_index'], ed['values']):
                        if not abs(v - ref_e[ident].v) <= tol(ref_e[ident]) + 1e-12:
                            out.fail('edit_after_panel:value', f'after rows were dropped with pandas individual {ident} gets {v!r}, '
                                                               f'the product over its remaining rows is {ref_e[ident].v!r} ({tag})')
                            break
            continue
        total = sum(ref[i].v for i in ref)
        ttol = sum(tol(ref[i]) for i in ref) + 1e-10 * (1 + sum(abs(ref[i].v) for i in ref))
        if not abs(r['like'] - total) <= ttol:
            out.fail('likelihood:sum_over_individuals', f'calculate_likelihood {r["like"]!r} vs sum over individuals {total!r} ({tag})')
        if 'like_scaled_with_derivatives' in r and not abs(r['like_scaled_with_derivatives'] - r['like'] / len(distinct)) <= ttol:
            out.fail('likelihood:scaled_with_derivatives', f'calculate_likelihood_and_derivatives(scaled=True) gives '
                     f'{r["like_scaled_with_derivatives"]!r}; log likelihood {r["like"]!r} over {len(distinct)} individuals ({tag})')
        if not abs(r['like_scaled'] - r['like'] / len(distinct)) <= ttol:
            out.fail('likelihood:scaled_by_individuals', f'scaled likelihood {r["like_scaled"]!r} vs {r["like"]!r} / {len(distinct)} individuals ({tag})')
        if len(r['sim']) != len(distinct):
            out.fail('simulate:rows', f'simulate returned {len(r["sim"])} rows for {len(distinct)} individuals ({tag})')
        else:
            for ident, v in zip(r['sim_index'], r['sim']):
                if ident in ref and not abs(v - ref[ident].v) <= tol(ref[ident]) + 1e-12:
                    out.fail('simulate:value', f'simulate row of individual {ident}: {v!r} vs {ref[ident].v!r} ({tag})')
                    break
    # (3) order of individuals / of rows inside an individual is irrelevant
    a, b = values_by_id.get('A'), values_by_id.get('B')
    if a and b:
        for ident in a:
            if ident not in b or not abs(a[ident] - b[ident]) <= 1e-10 * (1 + abs(a[ident])):
                out.fail('permutation', f'individual {ident}: {a[ident]!r} becomes {b.get(ident)!r} when blocks / rows inside blocks are permuted')
                break
    return out


def render(case):
    id_col = next(c[2] for c in case['table']['columns'] if c[0] == case['id_name'])
    return (f'{refsem.render(case["roots"][0])[:300]} on panel ids {id_col} (column {case["id_name"]!r}), draws {case["draws"]}, '
            f'R={case["R"]}')


SUBCHECKS = [
    SubCheck('panel', strat, judge, render, dict(quick=1200, thorough=30000),
             'panel tables (1-6 individuals, block sizes 1-4, ids negative / fractional / large, blocks in any order, 12% '
             'deliberately interleaved) x positive trajectory arguments x optional Monte-Carlo with deterministic user draws; '
             'non-trivial: >= 2 individuals with different block sizes, one of size 1, table order != sorted id order',
             max_skip_fraction=0.3),
]
RULE = SUBCHECKS[0].rule
