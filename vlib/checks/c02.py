"""C02 Gradient, Hessian and BHHH returned with a value are its true derivatives."""
from __future__ import annotations

import math

import numpy as np
from hypothesis import strategies as st

from .. import build, gen, isolate, refsem
from ..runner import Outcome, SubCheck
from .c01 import features, reference_values, shared_under_value_only_context

PROPERTY = 'C02'
LEVEL = 'exploration'
ASSUMPTIONS = [
    'reference derivatives are forward-mode second-order jets of the reference semantics (vlib/refsem.py), '
    'cross-checked by central finite differences of the reference value',
    'differentiable sub-grammar: comparisons / logic / set membership / selection keys never contain free '
    'parameters; min/max are judged only away from their kink',
    'BHHH convention: sum over observations of the outer product of the per-observation gradients',
    'relative tolerance 2e-6 (+ 1e-9 absolute) on every gradient / Hessian / BHHH entry, scaled by the largest '
    'reference entry',
]
BUDGETS = dict(quick=dict(shards=8), thorough=dict(shards=16))

RTOL = 2e-6
ATOL = 1e-9


def _reference_jets(case, root, point):
    """Per-row (value, gradient, hessian) of the reference at `point` (dict name -> value)."""
    names = refsem.free_names(root, case['shared'])
    index = {n: i for i, n in enumerate(names)}
    alg = refsem.JetAlg(len(names))
    rows = build.table_rows(case['table'])
    out = []
    for r in rows:
        env = refsem.Env(row=r, betas=point, shared=case['shared'], free_index=index)
        j = refsem.evaluate(root, env, alg)
        if not (np.all(np.isfinite(j.g)) and np.all(np.isfinite(j.h)) and math.isfinite(j.v)):
            raise refsem.IllPosed('non-finite reference derivative')
        out.append((j.v, np.array(j.g, dtype=float), np.array(j.h, dtype=float)))
    return names, out


def _fd_check(case, root, point, names, jets):
    """Central finite differences of the reference value against the reference gradient:
    guards the oracle itself (kinks, ill-conditioning). Raises IllPosed when they disagree."""
    if not names:
        return
    rows = build.table_rows(case['table'])
    alg = refsem.JetAlg(0)
    for r_i, r in enumerate(rows):
        g = jets[r_i][1]
        for k, n in enumerate(names):
            h = 1e-5 * (1 + abs(point[n]))
            vals = []
            for s in (+1, -1):
                p = dict(point)
                p[n] = point[n] + s * h
                env = refsem.Env(row=r, betas=p, shared=case['shared'], free_index={})
                try:
                    vals.append(refsem.evaluate(root, env, alg).v)
                except refsem.IllPosed:
                    raise refsem.IllPosed('point too close to the domain boundary')
            fd = (vals[0] - vals[1]) / (2 * h)
            scale = 1 + abs(g[k]) + abs(fd)
            if abs(fd - g[k]) > 1e-4 * scale + 1e-3 * max(1.0, float(np.max(np.abs(jets[r_i][2])))) * h * 10:
                raise refsem.IllPosed('reference gradient not confirmed by finite differences (kink?)')


def numeric_features(case, root, point, names):
    """Features that depend on the evaluation point (used to bucket failures by root cause)."""
    feats = set()
    index = {n: i for i, n in enumerate(names)}
    alg = refsem.JetAlg(len(names))
    rows = build.table_rows(case['table'])
    for node in refsem.walk(root, case['shared']):
        if node[0] == 'PowC' and float(node[2]) == 2.0:
            for r in rows:
                env = refsem.Env(row=r, betas=point, shared=case['shared'], free_index=index)
                try:
                    j = refsem.evaluate(node[1], env, alg)
                except refsem.IllPosed:
                    continue
                if np.any(j.h != 0):
                    feats.add('square_of_curved_child')
                    break
    return feats


def _close(a, b, scale):
    a = np.asarray(a, dtype=float)
    b = np.asarray(b, dtype=float)
    if a.shape != b.shape:
        return False
    if not np.all(np.isfinite(a)):
        return False
    return bool(np.all(np.abs(a - b) <= ATOL + RTOL * scale))


def _full_point(case):
    point = {}
    for r in case['roots']:
        for n in refsem.walk(r, case['shared']):
            if n[0] == 'Beta':
                point.setdefault(n[1], case['betas'].get(n[1], n[2]) if n[5] == 0 else n[2])
            if n[0] == 'LinUtil':
                for b, _ in n[1]:
                    point.setdefault(b[1], case['betas'].get(b[1], b[2]) if b[5] == 0 else b[2])
    return point


# ---------------------------------------------------------------------------------------------


def _arr(x):
    return None if x is None else np.asarray(x, dtype=float).tolist()


def _observe(case):
    import biogeme.biogeme as bio
    import biogeme.tools.derivatives as td
    from biogeme.parameters import Parameters

    np.random.seed(case['np_seed'])
    res = {}
    database = build.build_database(case['table'])
    betas = case['betas'] or None
    b = build.Builder(case['shared'], overloads=case['overloads'])
    e = b.build(case['roots'][0])
    free_sorted = case['free_sorted']
    x = [case['point'][n] for n in free_sorted]

    d = e.get_value_and_derivatives(database=database, betas=betas, gradient=True, hessian=True,
                                    bhhh=True, aggregation=False, prepare_ids=True)
    res['dis'] = dict(f=_arr(d.functions), g=_arr(d.gradients), h=_arr(d.hessians), b=_arr(d.bhhhs))
    a = e.get_value_and_derivatives(database=database, betas=betas, gradient=True, hessian=True,
                                    bhhh=True, aggregation=True, prepare_ids=True)
    res['agg'] = dict(f=float(a.function), g=_arr(a.gradient), h=_arr(a.hessian), b=_arr(a.bhhh))
    # reduced requests
    a2 = e.get_value_and_derivatives(database=database, betas=betas, gradient=True, hessian=False,
                                     bhhh=False, aggregation=True, prepare_ids=True)
    res['agg_g_only'] = dict(f=float(a2.function), g=_arr(a2.gradient),
                             h_is_none=a2.hessian is None, b_is_none=a2.bhhh is None)
    a3 = e.get_value_and_derivatives(database=database, betas=betas, gradient=True, hessian=False,
                                     bhhh=True, aggregation=True, prepare_ids=True)
    res['agg_g_b'] = dict(f=float(a3.function), g=_arr(a3.gradient), b=_arr(a3.bhhh),
                          h_is_none=a3.hessian is None)
    # named results
    nm = e.get_value_and_derivatives(database=database, betas=betas, gradient=True, hessian=True,
                                     bhhh=True, aggregation=True, prepare_ids=True, named_results=True)
    res['named'] = dict(f=float(nm.function), g={k: float(v) for k, v in nm.gradient.items()},
                        h={k: {kk: float(vv) for kk, vv in v.items()} for k, v in nm.hessian.items()},
                        b={k: {kk: float(vv) for kk, vv in v.items()} for k, v in nm.bhhh.items()})
    nd = e.get_value_and_derivatives(database=database, betas=betas, gradient=True, hessian=True,
                                     bhhh=False, aggregation=False, prepare_ids=True, named_results=True)
    res['named_dis_g'] = [{k: float(v) for k, v in g.items()} for g in nd.gradients]

    # create_function (values supplied as a vector in sorted-name order)
    e2 = build.Builder(case['shared'], overloads=case['overloads']).build(case['roots'][0])
    fct = e2.create_function(database=database, gradient=True, hessian=True, bhhh=True)
    o = fct(np.array(x))
    res['create_function'] = dict(f=float(o.function), g={k: float(v) for k, v in o.gradient.items()},
                                  h={k: {kk: float(vv) for kk, vv in v.items()} for k, v in o.hessian.items()},
                                  raw_g=_arr(o.function_output.gradient))
    # create_objective_function
    e3 = build.Builder(case['shared'], overloads=case['overloads']).build(case['roots'][0])
    obj = e3.create_objective_function(database=database)
    obj.set_variables(np.array(x))
    fgh = obj.f_g_h()
    obj.set_variables(np.array(x))
    fg = obj.f_g()
    obj.set_variables(np.array(x))
    res['objective'] = dict(f=float(obj.f()), fg_f=float(fg.function), fg_g=_arr(fg.gradient),
                            fgh_f=float(fgh.function), fgh_g=_arr(fgh.gradient), fgh_h=_arr(fgh.hessian))

    # BIOGEME.calculate_likelihood_and_derivatives
    e4 = build.Builder(case['shared'], overloads=case['overloads']).build(case['roots'][0])
    params = Parameters()
    # one thread: thread-count effects belong to C04, not to the correctness of derivatives
    params.set_value(name='number_of_threads', value=1)
    the = bio.BIOGEME(build.build_database(case['table']), e4, parameters=params)
    the.save_iterations = False
    the.generate_html = False
    the.generate_pickle = False
    res['bio_names'] = list(the.free_beta_names)
    for scaled in (False, True):
        r = the.calculate_likelihood_and_derivatives(x, scaled=scaled, hessian=True, bhhh=True)
        res[f'bio_scaled={scaled}'] = dict(f=float(r.function), g=_arr(r.gradient), h=_arr(r.hessian),
                                           b=_arr(r.bhhh))
    res['bio_like'] = float(the.calculate_likelihood(x, scaled=False))
    # a result obtained earlier must keep its content when the object is evaluated again elsewhere
    first = the.calculate_likelihood_and_derivatives(x, scaled=False, hessian=True, bhhh=True)
    x_other = [v + 0.375 for v in x]
    try:
        the.calculate_likelihood_and_derivatives(x_other, scaled=False, hessian=True, bhhh=True)
        res['bio_first_after_second'] = dict(f=float(first.function), g=_arr(first.gradient), h=_arr(first.hessian), b=_arr(first.bhhh))
    except Exception:  # the other point may be outside the domain: the clause is not judged then
        pass
    # the formula in a dictionary next to another formula that has one more free parameter
    if case.get('extra_beta'):
        from biogeme.expressions import Beta as _B

        e5 = build.Builder(case['shared'], overloads=case['overloads']).build(case['roots'][0])
        the2 = bio.BIOGEME(build.build_database(case['table']),
                           {'log_like': e5, 'other': e5 * 0 + _B(case['extra_beta'], 0.5, None, None, 0)}, parameters=params)
        the2.save_iterations = the2.generate_html = the2.generate_pickle = False
        names2 = list(the2.free_beta_names)
        x2 = [0.5 if n == case['extra_beta'] else case['point'][n] for n in names2]
        r2 = the2.calculate_likelihood_and_derivatives(x2, scaled=False, hessian=True, bhhh=True)
        res['bio_dict'] = dict(names=names2, f=float(r2.function), g=_arr(r2.gradient), h=_arr(r2.hessian), b=_arr(r2.bhhh))
    if x:
        cd = the.check_derivatives(x, verbose=False)
        res['check_derivatives'] = dict(f=float(cd[0]), g=_arr(cd[1]), h=_arr(cd[2]), gdiff=_arr(cd[3]),
                                        hdiff=_arr(cd[4]))
    return res


def judge(case) -> Outcome:
    out = Outcome()
    root = case['roots'][0]
    point = _full_point(case)
    try:
        reference_values(case, root, betas=point)
        names, jets = _reference_jets(case, root, point)
        _fd_check(case, root, point, names, jets)
    except (refsem.IllPosed, OverflowError, ZeroDivisionError) as e:
        out.skipped = 'ill-posed: ' + str(e)[:50]
        return out
    k = len(names)
    if k == 0:
        out.skipped = 'no free parameter in the formula'
        return out
    n_rows = len(jets)
    # a parameter of ANOTHER formula given to BIOGEME next to this one; its name sorts anywhere among the others
    unused = [n for n in gen.BETA_NAMES if n not in point]
    case = dict(case, free_sorted=names, point=point, extra_beta=unused[case['np_seed'] % len(unused)] if unused else None)
    f_ref = np.array([j[0] for j in jets])
    g_ref = np.array([j[1] for j in jets]).reshape(n_rows, k)
    h_ref = np.array([j[2] for j in jets]).reshape(n_rows, k, k)
    b_ref = np.array([np.outer(g, g) for g in g_ref]).reshape(n_rows, k, k)
    G, H, B = g_ref.sum(0), h_ref.sum(0), b_ref.sum(0)
    gs = max(1.0, float(np.max(np.abs(g_ref))) if k else 1.0)
    hs = max(1.0, float(np.max(np.abs(h_ref))) if k else 1.0, gs)
    bs = max(1.0, gs * gs)
    Gs, Hs, Bs = gs * n_rows, hs * n_rows, bs * n_rows
    fs = max(1.0, float(np.max(np.abs(f_ref))))

    appearance = []
    for n in refsem.walk(root, case['shared']):
        if n[0] == 'Beta' and n[5] == 0 and n[1] not in appearance:
            appearance.append(n[1])
        if n[0] == 'LinUtil':
            for b, _ in n[1]:
                if b[5] == 0 and b[1] not in appearance:
                    appearance.append(b[1])
    offdiag = k >= 2 and float(np.max(np.abs(H - np.diag(np.diag(H))))) > 1e-8 * Hs
    out.nontrivial = k >= 2 and float(np.max(np.abs(H))) > 0 and offdiag and appearance != names
    out.classes += [f'free={min(k, 5)}', 'order_differs' if appearance != names else 'order_same',
                    'offdiag' if offdiag else 'no_offdiag']
    feats = features(case, root) | numeric_features(case, root, point, names)
    if shared_under_value_only_context(case, root):
        feats.add('shared_subtree_also_under_comparison')
        out.classes.append('excluded:shared_subtree_also_under_comparison')
    prefix = ''.join(f'[{f}]' for f in sorted(feats))

    res = isolate.call(_observe, case)
    if not res['ok']:
        out.fail(f'{prefix}raises:{res["exc_type"]}',
                 f'differentiable formula raised {res["exc_type"]}: {res["exc_msg"][:300]} for '
                 f'{refsem.render(root, case["shared"])[:300]}')
        return out
    o = res['value']
    where = f' for {refsem.render(root, case["shared"])[:250]} at {point}'

    def chk(key, got, ref, scale, what):
        if got is None or not _close(got, ref, scale):
            out.fail(prefix + key, f'{what}: got {got if got is None else np.asarray(got).tolist()} '
                                   f'expected {np.asarray(ref).tolist()}' + where)
            return False
        return True

    # ---- per-observation outputs
    d = o['dis']
    chk('dis:function', d['f'], f_ref, fs, 'per-observation values')
    if k:
        ok_g = chk('dis:gradient', d['g'], g_ref, gs, 'per-observation gradients (sorted free names ' + str(names) + ')')
        ok_h = chk('dis:hessian', d['h'], h_ref, hs, 'per-observation Hessians')
        chk('dis:bhhh', d['b'], b_ref, bs, 'per-observation BHHH (outer product of the gradient)')
        if d['h'] is not None:
            hh = np.asarray(d['h'], dtype=float)
            if hh.shape == h_ref.shape and not np.all(np.abs(hh - np.transpose(hh, (0, 2, 1))) <= 1e-12 * hs):
                out.fail(prefix + 'dis:hessian_symmetry', 'per-observation Hessian not symmetric' + where)
        if d['g'] is not None and d['b'] is not None:
            eg = np.asarray(d['g'], dtype=float)
            if eg.shape == g_ref.shape:
                own = np.array([np.outer(g, g) for g in eg]).reshape(n_rows, k, k)
                chk('dis:bhhh_vs_own_gradient', d['b'], own, bs, 'BHHH vs outer product of the engine\'s own gradients')
    # ---- aggregated outputs
    a = o['agg']
    chk('agg:function', a['f'], f_ref.sum(), fs * n_rows, 'aggregated value')
    if k:
        chk('agg:gradient', a['g'], G, Gs, 'aggregated gradient')
        chk('agg:hessian', a['h'], H, Hs, 'aggregated Hessian')
        chk('agg:bhhh', a['b'], B, Bs, 'aggregated BHHH = sum of outer products of per-observation gradients')
        if a['h'] is not None:
            hh = np.asarray(a['h'], dtype=float)
            if hh.shape == H.shape and not np.all(np.abs(hh - hh.T) <= 1e-12 * Hs):
                out.fail(prefix + 'agg:hessian_symmetry', 'aggregated Hessian not symmetric' + where)
        # aggregated = sum of the engine's own disaggregate outputs
        if d['g'] is not None and a['g'] is not None and np.asarray(d['g']).shape == g_ref.shape:
            chk('agg:sum_of_dis_gradient', a['g'], np.asarray(d['g'], dtype=float).sum(0), Gs,
                'aggregated gradient vs sum of per-observation gradients')
        if d['h'] is not None and a['h'] is not None and np.asarray(d['h']).shape == h_ref.shape:
            chk('agg:sum_of_dis_hessian', a['h'], np.asarray(d['h'], dtype=float).sum(0), Hs,
                'aggregated Hessian vs sum of per-observation Hessians')
        g2 = o['agg_g_only']
        chk('agg_g_only:gradient', g2['g'], G, Gs, 'gradient requested without Hessian/BHHH')
        if not (g2['h_is_none'] and g2['b_is_none']):
            out.fail(prefix + 'agg_g_only:unrequested', 'Hessian/BHHH returned although not requested')
        g3 = o['agg_g_b']
        chk('agg_g_b:gradient', g3['g'], G, Gs, 'gradient requested with BHHH only')
        chk('agg_g_b:bhhh', g3['b'], B, Bs, 'BHHH requested without Hessian')
        # ---- names
        nm = o['named']
        if sorted(nm['g']) != names:
            out.fail(prefix + 'named:keys', f'named gradient keys {sorted(nm["g"])} vs free parameters {names}')
        else:
            chk('named:gradient', [nm['g'][n] for n in names], G, Gs, 'named gradient')
            chk('named:hessian', [[nm['h'][n][m] for m in names] for n in names], H, Hs, 'named Hessian')
            chk('named:bhhh', [[nm['b'][n][m] for m in names] for n in names], B, Bs, 'named BHHH')
        ndg = o['named_dis_g']
        if len(ndg) == n_rows and all(sorted(g) == names for g in ndg):
            chk('named_dis:gradient', [[g[n] for n in names] for g in ndg], g_ref, gs, 'named per-observation gradients')
        else:
            out.fail(prefix + 'named_dis:keys', 'named per-observation gradients have wrong keys / length')
        cf = o['create_function']
        if sorted(cf['g']) != names:
            out.fail(prefix + 'create_function:keys', f'keys {sorted(cf["g"])} vs {names}')
        else:
            chk('create_function:gradient', [cf['g'][n] for n in names], G, Gs, 'create_function gradient')
            chk('create_function:hessian', [[cf['h'][n][m] for m in names] for n in names], H, Hs,
                'create_function Hessian')
            chk('create_function:raw_gradient', cf['raw_g'], G, Gs, 'create_function raw gradient vector')
        chk('create_function:value', cf['f'], f_ref.sum(), fs * n_rows, 'create_function value')
        ob = o['objective']
        chk('objective:f', ob['f'], f_ref.sum(), fs * n_rows, 'objective f()')
        chk('objective:f_g', ob['fg_g'], G, Gs, 'objective f_g() gradient')
        chk('objective:f_g_h:g', ob['fgh_g'], G, Gs, 'objective f_g_h() gradient')
        chk('objective:f_g_h:h', ob['fgh_h'], H, Hs, 'objective f_g_h() Hessian')
        chk('objective:values', [ob['fg_f'], ob['fgh_f']], [f_ref.sum()] * 2, fs * n_rows, 'objective values')
    # ---- BIOGEME object
    if o['bio_names'] != names:
        out.fail(prefix + 'biogeme:free_beta_names', f'free_beta_names {o["bio_names"]} vs sorted {names}')
    for scaled in (False, True):
        r = o[f'bio_scaled={scaled}']
        div = float(n_rows) if scaled else 1.0
        tag = 'scaled' if scaled else 'unscaled'
        chk(f'biogeme:{tag}:function', r['f'], f_ref.sum() / div, fs * n_rows / div, f'BIOGEME {tag} log likelihood')
        if k:
            chk(f'biogeme:{tag}:gradient', r['g'], G / div, Gs / div, f'BIOGEME {tag} gradient')
            chk(f'biogeme:{tag}:hessian', r['h'], H / div, Hs / div, f'BIOGEME {tag} Hessian')
            chk(f'biogeme:{tag}:bhhh', r['b'], B / div, Bs / div, f'BIOGEME {tag} BHHH')
    chk('biogeme:likelihood', o['bio_like'], f_ref.sum(), fs * n_rows, 'BIOGEME.calculate_likelihood')
    if k and 'bio_first_after_second' in o:
        r = o['bio_first_after_second']
        chk('biogeme:earlier_result_after_new_evaluation:gradient', r['g'], G, Gs,
            'gradient held by a result object after the same BIOGEME object was evaluated at another point')
        chk('biogeme:earlier_result_after_new_evaluation:hessian', r['h'], H, Hs,
            'Hessian held by a result object after the same BIOGEME object was evaluated at another point')
        chk('biogeme:earlier_result_after_new_evaluation:bhhh', r['b'], B, Bs,
            'BHHH held by a result object after the same BIOGEME object was evaluated at another point')
    if k and 'bio_dict' in o:
        r = o['bio_dict']
        want_names = sorted(names + [case['extra_beta']])
        if r['names'] != want_names:
            out.fail(prefix + 'biogeme:dict_of_formulas:free_beta_names',
                     f'free_beta_names {r["names"]} for formulas whose free parameters are {want_names}' + where)
        else:
            pos = [want_names.index(n) for n in names]
            extra = want_names.index(case['extra_beta'])
            G2 = np.zeros(k + 1)
            G2[pos] = G
            H2 = np.zeros((k + 1, k + 1))
            H2[np.ix_(pos, pos)] = H
            B2 = np.zeros((k + 1, k + 1))
            B2[np.ix_(pos, pos)] = B
            chk('biogeme:dict_of_formulas:gradient', r['g'], G2, Gs, f'gradient in the order of free_beta_names {want_names} '
                                                                     f'(entry {extra} belongs to a parameter of another formula)')
            chk('biogeme:dict_of_formulas:hessian', r['h'], H2, Hs, f'Hessian in the order of free_beta_names {want_names}')
            chk('biogeme:dict_of_formulas:bhhh', r['b'], B2, Bs, f'BHHH in the order of free_beta_names {want_names}')
    if k and 'check_derivatives' in o:
        cd = o['check_derivatives']
        chk('check_derivatives:gradient', cd['g'], G, Gs, 'check_derivatives analytical gradient')
        chk('check_derivatives:hessian', cd['h'], H, Hs, 'check_derivatives analytical Hessian')
        # its reported differences must be small exactly when the derivatives are right
        gd = np.asarray(cd['gdiff'], dtype=float)
        hd = np.asarray(cd['hdiff'], dtype=float)
        # forward differences with step 1e-7: truncation ~ step x curvature, cancellation ~ eps |f| / step
        fd_noise = 1e-3 * (Gs + Hs) + 1e-7 * float(np.sum(np.abs(f_ref)))
        if gd.shape == G.shape and np.all(np.isfinite(gd)) and not np.all(np.abs(gd) <= fd_noise):
            out.fail(prefix + 'check_derivatives:gdiff',
                     f'check_derivatives reports gradient differences {gd.tolist()} although the gradient is right' + where)
        if hd.shape == H.shape and np.all(np.isfinite(hd)) and not np.all(np.abs(hd) <= 1e-2 * (Hs + Gs) * 10):
            pass  # the finite-difference Hessian of the tool is too noisy to bound soundly: not asserted
    return out


@st.composite
def strat(draw, tier):
    case = draw(gen.expression_cases(tier, differentiable=True, min_free=2,
                                     max_rows=8 if tier == 'thorough' else 5))
    return case


def render_case(case):
    from .c01 import render_case as rc

    return rc(case)


# ---------------------------------------------------------------------------------------------
# name -> index packaging of named outputs (pure Python)


@st.composite
def strat_named(draw, tier):
    k = draw(st.integers(1, 5))
    extra = draw(st.integers(0, 2))  # the sequence may be longer than the mapping (partial mapping)
    names = draw(st.lists(st.sampled_from(gen.BETA_NAMES), min_size=k, max_size=k, unique=True))
    indices = draw(st.permutations(list(range(k + extra))))[:k]
    order = draw(st.permutations(list(range(k))))  # order in which the mapping lists its entries
    mapping = [[names[i], indices[i]] for i in order]
    n = k + extra
    vals = st.floats(-50, 50).map(lambda x: round(x, 3))
    g = draw(st.lists(vals, min_size=n, max_size=n))
    h = [draw(st.lists(vals, min_size=n, max_size=n)) for _ in range(n)]
    b = [draw(st.lists(vals, min_size=n, max_size=n)) for _ in range(n)]
    rows = draw(st.integers(1, 3))
    return dict(mapping=mapping, g=g, h=h, b=b, rows=rows, f=draw(vals))


def judge_named(spec) -> Outcome:
    import biogeme.function_output as fo

    out = Outcome()
    mapping = {n: i for n, i in spec['mapping']}
    in_order = [i for _, i in spec['mapping']] == sorted(i for _, i in spec['mapping'])
    out.nontrivial = len(mapping) >= 2 and not in_order
    out.classes += ['listed_in_index_order' if in_order else 'listed_out_of_index_order',
                    'partial_mapping' if len(mapping) < len(spec['g']) else 'full_mapping']
    g, h, b = np.array(spec['g']), np.array(spec['h']), np.array(spec['b'])

    def check(label, named_g, named_h, named_b, gg, hh, bb):
        for n, i in mapping.items():
            if named_g is not None and not named_g.get(n) == gg[i]:
                out.fail(f'named:{label}:gradient', f'{label}: gradient[{n!r}] = {named_g.get(n)!r}, entry {i} of the '
                                                    f'array is {gg[i]!r} (mapping {spec["mapping"]})')
                return
            for m, j in mapping.items():
                if named_h is not None and not named_h[n][m] == hh[i][j]:
                    out.fail(f'named:{label}:hessian', f'{label}: hessian[{n!r}][{m!r}] = {named_h[n][m]!r}, entry '
                                                       f'({i},{j}) is {hh[i][j]!r} (mapping {spec["mapping"]})')
                    return
                if named_b is not None and not named_b[n][m] == bb[i][j]:
                    out.fail(f'named:{label}:bhhh', f'{label}: bhhh[{n!r}][{m!r}] = {named_b[n][m]!r}, entry ({i},{j}) '
                                                    f'is {bb[i][j]!r}')
                    return
    try:
        d = fo.convert_to_dict(list(g), mapping)
        if d != {n: g[i] for n, i in mapping.items()}:
            out.fail('named:convert_to_dict', f'convert_to_dict({list(g)}, {spec["mapping"]}) = {d}')
        base = fo.BiogemeFunctionOutput(function=spec['f'], gradient=g, hessian=h, bhhh=b)
        nf = fo.NamedBiogemeFunctionOutput(function_output=base, mapping=mapping)
        check('NamedBiogemeFunctionOutput', nf.gradient, nf.hessian, nf.bhhh, g, h, b)
        plain = fo.NamedFunctionOutput(function_output=fo.FunctionOutput(function=spec['f'], gradient=g, hessian=h),
                                       mapping=mapping)
        check('NamedFunctionOutput', plain.gradient, plain.hessian, None, g, h, b)
        r = spec['rows']
        dis = fo.BiogemeDisaggregateFunctionOutput(
            functions=np.full(r, spec['f']), gradients=np.array([g * (q + 1) for q in range(r)]),
            hessians=np.array([h * (q + 1) for q in range(r)]), bhhhs=np.array([b * (q + 1) for q in range(r)]))
        nd = fo.NamedBiogemeDisaggregateFunctionOutput(function_output=dis, mapping=mapping)
        for q in range(r):
            check(f'NamedBiogemeDisaggregateFunctionOutput[row {q}]', nd.gradients[q], nd.hessians[q], nd.bhhhs[q],
                  g * (q + 1), h * (q + 1), b * (q + 1))
    except Exception as e:  # noqa
        out.fail(f'named:raises:{type(e).__name__}', f'named outputs with mapping {spec["mapping"]} raised {e!r}')
    return out


# ---------------------------------------------------------------------------------------------
# the finite-difference self-check offered to users (tools.derivatives)


@st.composite
def strat_findiff(draw, tier):
    k = draw(st.integers(1, 4))
    # f(x) = sum_i a_i x_i + sum_{i<=j} q_ij x_i x_j + sum_i c_i exp(d_i x_i) + e * prod_i sin(x_i + s_i)
    co = st.one_of(gen.dyadic(-2, 2), st.floats(-2, 2).map(lambda v: round(v, 2)))
    x = [draw(st.one_of(st.floats(-3, 3).map(lambda v: round(v, 3)), gen.dyadic(-3, 3), st.just(0.0))) for _ in range(k)]
    return dict(x=x, a=[draw(co) for _ in range(k)], q=[[draw(co) for _ in range(k)] for _ in range(k)],
                c=[draw(co) for _ in range(k)], d=[draw(gen.dyadic(-1, 1)) for _ in range(k)], e=draw(co),
                s=[draw(gen.dyadic(-1, 1)) for _ in range(k)])


def _fd_function(spec):
    a, c, d, e, s = (np.array(spec[n], dtype=float) for n in ('a', 'c', 'd', 'e', 's'))
    q = np.triu(np.array(spec['q'], dtype=float))
    k = len(a)

    def f(x):
        x = np.asarray(x, dtype=float)
        sn, cs = np.sin(x + s), np.cos(x + s)
        prod = np.prod(sn)
        val = a @ x + x @ q @ x + np.sum(c * np.exp(d * x)) + e * prod
        grad = a + (q + q.T) @ x + c * d * np.exp(d * x)
        hess = (q + q.T) + np.diag(c * d * d * np.exp(d * x))
        for i in range(k):
            others = np.prod(np.delete(sn, i))
            grad[i] += e * cs[i] * others
            for j in range(k):
                if i == j:
                    hess[i, i] += -e * sn[i] * others
                else:
                    rest = np.prod(np.delete(sn, [i, j]))
                    hess[i, j] += e * cs[i] * cs[j] * rest
        return float(val), grad, hess
    return f


def judge_findiff(spec) -> Outcome:
    import biogeme.tools.derivatives as td
    from biogeme.function_output import FunctionOutput

    out = Outcome()
    f = _fd_function(spec)
    x = np.array(spec['x'], dtype=float)
    val, grad, hess = f(x)
    k = len(x)
    offdiag = k >= 2 and float(np.max(np.abs(hess - np.diag(np.diag(hess))))) > 1e-3
    steps_differ = len({(abs(v) if abs(v) >= 1 else (1.0 if v >= 0 else -1.0)) for v in x}) > 1
    out.nontrivial = offdiag and steps_differ
    out.classes += ['offdiag' if offdiag else 'separable', 'mixed_steps' if steps_differ else 'equal_steps']

    def the_function(z):
        v, g, h = f(z)
        return FunctionOutput(function=v, gradient=g, hessian=h)
    scale = 1 + float(np.max(np.abs(hess))) + float(np.max(np.abs(grad))) + abs(val)
    try:
        g_num = np.asarray(td.findiff_g(the_function, x.copy()), dtype=float)
        h_num = np.asarray(td.findiff_h(the_function, x.copy()), dtype=float)
        cd = td.check_derivatives(the_function, x.copy(), names=[f'p{i}' for i in range(k)], logg=False)
    except Exception as e:  # noqa
        out.fail(f'findiff:raises:{type(e).__name__}', f'finite-difference tools raised {e!r} at x={spec["x"]}')
        return out
    # forward differences with step 1e-7: truncation ~1e-7 * |third derivative|, rounding ~1e-9 * |f|
    tol = 2e-5 * scale
    if g_num.shape != grad.shape or not np.all(np.abs(g_num - grad) <= tol):
        out.fail('findiff:findiff_g', f'findiff_g = {g_num.tolist()} but the gradient is {grad.tolist()} at x={spec["x"]}')
    if h_num.shape != hess.shape or not np.all(np.abs(h_num - hess) <= tol):
        out.fail('findiff:findiff_h', f'findiff_h = {h_num.tolist()} but the Hessian is {hess.tolist()} at x={spec["x"]}')
    gdiff, hdiff = np.asarray(cd[3], dtype=float), np.asarray(cd[4], dtype=float)
    if not (abs(cd[0] - val) <= 1e-12 * scale and np.allclose(cd[1], grad) and np.allclose(cd[2], hess)):
        out.fail('findiff:check_derivatives:analytical', 'check_derivatives does not return the analytical f, g, h it was given')
    if gdiff.shape != grad.shape or not np.all(np.abs(gdiff) <= tol):
        out.fail('findiff:check_derivatives:gdiff', f'check_derivatives reports gradient differences {gdiff.tolist()} '
                                                    f'for exact derivatives at x={spec["x"]}')
    if hdiff.shape != hess.shape or not np.all(np.abs(hdiff) <= tol):
        out.fail('findiff:check_derivatives:hdiff', f'check_derivatives reports Hessian differences {hdiff.tolist()} '
                                                    f'for exact derivatives at x={spec["x"]}')
    return out


# ---------------------------------------------------------------------------------------------
# derivatives through Monte-Carlo and numerical integrals


@st.composite
def strat_integrals(draw, tier):
    from . import c10

    mode = draw(st.sampled_from(['montecarlo', 'montecarlo', 'integrate']))
    if mode == 'integrate':
        case = draw(c10.strat_integrate(tier, differentiable=True))
        # every parameter of the integrand is free here
        def free(s):
            if isinstance(s, list):
                if s and s[0] == 'Beta':
                    s[5] = 0
                    s[3] = s[4] = None
                for c in s:
                    free(c)
        free(case['roots'][0])
        case['mode'] = mode
        return case
    big = tier == 'thorough'
    n_vars = draw(st.integers(1, 2))
    table, info = draw(gen.tables(max_rows=4 if big else 3, with_choice=draw(st.booleans())))
    placeholders = [f'__d{i}' for i in range(n_vars)]
    dnames = draw(st.lists(st.sampled_from(c10.DRAW_NAMES), min_size=n_vars, max_size=n_vars, unique=True))
    user_types, dtypes = {}, []
    for i in range(n_vars):
        t = draw(st.sampled_from(c10.USER_TYPES))
        user_types.setdefault(t, [draw(gen.dyadic(-1, 1)), draw(gen.dyadic(-1, 1, 16)), draw(gen.dyadic(-1, 1, 16)), 'float'])
        dtypes.append(t)
    info2 = dict(info)
    info2['real'] = list(info['real']) + placeholders + placeholders
    # no logit inside the integral: draws in logit availabilities are a separate finding of C10
    g = gen.TreeGen(draw, info2, max_betas=3, max_nodes=18, differentiable=True, logit=False)
    g.not_in_linutil = set(placeholders)
    inner = g.real(draw(st.integers(1, 3)))
    mapping = {p_: (dnames[i], dtypes[i]) for i, p_ in enumerate(placeholders)}
    used = {n[1] for n in refsem.walk(inner, g.shared) if n[0] == 'Var' and n[1] in mapping}
    pool = [n for n in gen.BETA_NAMES if n not in g.betas and n not in g.beta_pool]
    for i, p_ in enumerate(placeholders):
        if p_ not in used or i == 0:
            # the classical random coefficient: (mean + scale * draw) * attribute
            b = ['Beta', pool.pop(0), draw(gen.dyadic(-1, 1)), None, None, 0]
            inner = ['Plus', inner, ['Times', ['Times', b, ['Var', p_]], g._real_leaf()]]
    shape = draw(st.sampled_from(['plain', 'log_of_exp', 'log_of_exp']))
    root = ['MonteCarlo', inner] if shape == 'plain' else ['log', ['MonteCarlo', ['exp', inner]]]
    shared = [c10._substitute(s_, mapping) for s_ in g.shared]
    root = c10._substitute(root, mapping)
    return dict(table=table, shared=shared, roots=[root], betas={}, overloads=draw(st.booleans()), np_seed=0, mode=mode,
                draws=[[dnames[i], dtypes[i]] for i in range(n_vars)], user_types=user_types, R=draw(st.integers(1, 5)) * 2)


def _observe_integrals(case):
    import biogeme.biogeme as bio
    from biogeme.parameters import Parameters
    from . import c10

    def database():
        d = build.build_database(case['table'])
        rng = {}
        for t, const in case.get('user_types', {}).items():
            rng[t] = ((lambda n, r, const=const: c10.user_series(const, n, r)), f'user-defined {t}')
        if rng:
            d.set_random_number_generators(rng)
        return d
    R = case.get('R', 2)
    res = {}
    e = build.Builder(case['shared'], overloads=case['overloads']).build(case['roots'][0])
    d = e.get_value_and_derivatives(database=database(), number_of_draws=R, gradient=True, hessian=True, bhhh=True,
                                    aggregation=False, prepare_ids=True)
    res['dis'] = dict(f=_arr(d.functions), g=_arr(d.gradients), h=_arr(d.hessians), b=_arr(d.bhhhs))
    e1 = build.Builder(case['shared'], overloads=case['overloads']).build(case['roots'][0])
    a = e1.get_value_and_derivatives(database=database(), number_of_draws=R, gradient=True, hessian=False, bhhh=False,
                                     aggregation=True, prepare_ids=True)
    res['agg_g_only'] = dict(f=float(a.function), g=_arr(a.gradient))
    e2 = build.Builder(case['shared'], overloads=case['overloads']).build(case['roots'][0])
    params = Parameters()
    params.set_value(name='number_of_threads', value=1)
    params.set_value(name='number_of_draws', value=R)
    the = bio.BIOGEME(database(), e2, parameters=params)
    the.save_iterations = the.generate_html = the.generate_pickle = False
    res['bio_names'] = list(the.free_beta_names)
    x = [case['point'][n] for n in the.free_beta_names]
    r = the.calculate_likelihood_and_derivatives(x, scaled=False, hessian=True, bhhh=True)
    res['bio'] = dict(f=float(r.function), g=_arr(r.gradient), h=_arr(r.hessian), b=_arr(r.bhhh))
    return res


def judge_integrals(case) -> Outcome:
    from . import c10

    out = Outcome()
    root = case['roots'][0]
    point = _full_point(case)
    names = refsem.free_names(root, case['shared'])
    k = len(names)
    if k == 0:
        out.skipped = 'no free parameter in the formula'
        return out
    index = {n: i for i, n in enumerate(names)}
    rows = build.table_rows(case['table'])
    n_rows = len(rows)
    mode = case['mode']
    R = case.get('R', 0)
    draw_names = sorted(n for n, _ in case.get('draws', []))
    type_of = dict((n, t) for n, t in case.get('draws', []))
    series = {n: np.asarray(c10.user_series(case['user_types'][type_of[n]], n_rows, R), dtype=float) for n in draw_names}

    def env_for(i, row, free_index, betas):
        dbr = None
        if mode == 'montecarlo':
            dbr = [{n: float(series[n][i, r]) for n in draw_names} for r in range(R)]
        return refsem.Env(row=row, betas=betas, shared=case['shared'], free_index=free_index, draws_by_r=dbr)
    try:
        jets = []
        for i, row in enumerate(rows):
            v = refsem.evaluate(root, env_for(i, row, {}, point), refsem.EVAlg())
            if v.e > 1e-6 * (1 + abs(v.v)):
                raise refsem.IllPosed('error bound')
            j = refsem.evaluate(root, env_for(i, row, index, point), refsem.JetAlg(k))
            if not (math.isfinite(j.v) and np.all(np.isfinite(j.g)) and np.all(np.isfinite(j.h))):
                raise refsem.IllPosed('non-finite reference derivative')
            jets.append(j)
            # finite differences of the reference value guard the oracle (kinks of min / max)
            for q, n in enumerate(names):
                hstep = 1e-5 * (1 + abs(point[n]))
                vals = [refsem.evaluate(root, env_for(i, row, {}, dict(point, **{n: point[n] + sgn * hstep})), refsem.JetAlg(0)).v
                        for sgn in (1, -1)]
                fd = (vals[0] - vals[1]) / (2 * hstep)
                if abs(fd - j.g[q]) > 1e-4 * (1 + abs(fd) + abs(j.g[q])) + 1e-2 * max(1.0, float(np.max(np.abs(j.h)))) * hstep:
                    raise refsem.IllPosed('reference gradient not confirmed by finite differences (kink?)')
    except (refsem.IllPosed, OverflowError, ZeroDivisionError) as e:
        out.skipped = 'ill-posed: ' + str(e)[:50]
        return out
    f_ref = np.array([j.v for j in jets])
    g_ref = np.array([j.g for j in jets]).reshape(n_rows, k)
    h_ref = np.array([j.h for j in jets]).reshape(n_rows, k, k)
    b_ref = np.array([np.outer(g, g) for g in g_ref]).reshape(n_rows, k, k)
    gs = max(1.0, float(np.max(np.abs(g_ref))))
    hs = max(1.0, float(np.max(np.abs(h_ref))), gs)
    bs = max(1.0, gs * gs)
    fs = max(1.0, float(np.max(np.abs(f_ref))))
    # quadrature accuracy for Integrate (the engine uses a fixed-node rule), machine accuracy for Monte-Carlo
    rt = 1e-5 if mode == 'integrate' else RTOL
    feats = features(case, root)
    try:
        feats |= numeric_features(case, root, point, names)
    except Exception:  # sub-trees with draws cannot be evaluated on their own: structural tags only
        for node in refsem.walk(root, case['shared']):
            if node[0] == 'PowC' and float(node[2]) == 2.0 and any(m_[0] in ('Beta', 'LinUtil') for m_ in refsem.walk(node[1], case['shared'])):
                feats.add('square_of_curved_child')
    if shared_under_value_only_context(case, root):
        feats.add('shared_subtree_also_under_comparison')
    prefix = ''.join(f'[{f}]' for f in sorted(feats)) + f'{mode}:'
    out.classes += [f'mode={mode}', f'free={min(k, 4)}', f'R={R}' if mode == 'montecarlo' else f'integrand={case.get("kind")}']
    out.nontrivial = k >= 2 and float(np.max(np.abs(h_ref))) > 0
    res = isolate.call(_observe_integrals, dict(case, point=point))
    where = f' for {refsem.render(root, case["shared"])[:250]} at {point}' + (f', draws {case["draws"]} R={R}' if mode == 'montecarlo' else '')
    if not res['ok']:
        out.fail(f'{prefix}raises:{res["exc_type"]}', f'{res["exc_type"]}: {res["exc_msg"][:300]}' + where)
        return out
    o = res['value']

    several = ':several_parameters' if mode == 'integrate' and k >= 2 else ''

    def chk(key, got, ref, scale, what):
        if key.endswith('hessian'):
            key += several
        a, b = (None if got is None else np.asarray(got, dtype=float)), np.asarray(ref, dtype=float)
        if a is None or a.shape != b.shape or not np.all(np.isfinite(a)) or not np.all(np.abs(a - b) <= ATOL + rt * scale):
            out.fail(prefix + key, f'{what}: got {None if a is None else a.tolist()} expected {b.tolist()}' + where)
    d = o['dis']
    chk('dis:function', d['f'], f_ref, fs, 'per-observation values')
    chk('dis:gradient', d['g'], g_ref, gs, f'per-observation gradients (sorted free names {names})')
    chk('dis:hessian', d['h'], h_ref, hs, 'per-observation Hessians')
    chk('dis:bhhh', d['b'], b_ref, bs, 'per-observation BHHH')
    chk('agg_g_only:gradient', o['agg_g_only']['g'], g_ref.sum(0), gs * n_rows, 'aggregated gradient requested alone')
    if o['bio_names'] != names:
        out.fail(prefix + 'biogeme:free_beta_names', f'{o["bio_names"]} vs {names}')
    else:
        chk('biogeme:function', o['bio']['f'], f_ref.sum(), fs * n_rows, 'BIOGEME log likelihood')
        chk('biogeme:gradient', o['bio']['g'], g_ref.sum(0), gs * n_rows, 'BIOGEME gradient')
        chk('biogeme:hessian', o['bio']['h'], h_ref.sum(0), hs * n_rows, 'BIOGEME Hessian')
        chk('biogeme:bhhh', o['bio']['b'], b_ref.sum(0), bs * n_rows, 'BIOGEME BHHH')
    return out



SUBCHECKS = [
    SubCheck('derivatives', strat, judge, render_case, dict(quick=1600, thorough=60000),
             'differentiable random expression DAGs x tables x parameter points; every entry point '
             '(get_value_and_derivatives aggregated / per observation / reduced requests / named, create_function, '
             'create_objective_function, BIOGEME.calculate_likelihood_and_derivatives scaled and unscaled, '
             'check_derivatives) against reference jets; non-trivial: >= 2 free parameters, non-zero off-diagonal '
             'Hessian, order of appearance != sorted order', max_skip_fraction=0.3),
    SubCheck('named_outputs', strat_named, judge_named, lambda s: f"mapping {s['mapping']} over arrays of size {len(s['g'])}",
             dict(quick=1500, thorough=30000),
             'Named*FunctionOutput / convert_to_dict with generated name->index mappings (listed in any order, possibly '
             'partial): entry under a name == array entry at its index; non-trivial: >= 2 names not listed in index order'),
    SubCheck('finite_differences', strat_findiff, judge_findiff, lambda s: f"f with {len(s['x'])} variables at x={s['x']}",
             dict(quick=1500, thorough=30000),
             'tools.derivatives findiff_g / findiff_h / check_derivatives on generated smooth functions with exact '
             'derivatives (quadratic + exponential + product-of-sines): differences reported must be small; non-trivial: '
             'non-zero cross derivatives and coordinates that get different step sizes'),
    SubCheck('integrals', strat_integrals, judge_integrals,
             lambda c: f"{c['mode']}: {refsem.render(c['roots'][0], c['shared'])[:300]}",
             dict(quick=500, thorough=12000),
             'derivatives THROUGH the simulation and integration operators: MonteCarlo(f) and log(MonteCarlo(exp(f))) with random '
             'coefficients (parameter x draw x attribute) and deterministic user-defined draws, Integrate(g x normal density) with free '
             'parameters in g; per-observation value / gradient / Hessian / BHHH, gradient alone, and BIOGEME likelihood derivatives '
             'against reference jets (mean over draws of the jets; quadrature of the jets); non-trivial: >= 2 free parameters and '
             'a non-zero Hessian', max_skip_fraction=0.4),
]
RULE = ' | '.join(f'{s.name}: {s.rule}' for s in SUBCHECKS)
