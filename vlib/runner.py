"""Common runner: shards, Hypothesis driving, known findings, replays, evidence.

A check module (vlib/checks/cNN.py) exposes

    PROPERTY      'C11'
    LEVEL         'exploration' | 'fault_enumeration'
    ASSUMPTIONS   list[str]
    SUBCHECKS     list[SubCheck]

A SubCheck bundles a Hypothesis strategy producing a JSON-serialisable *spec*, a judge
(spec -> Outcome) holding the oracle, and a renderer.  Everything random comes from the
strategy; judges are pure functions of (spec, code under test).
"""
from __future__ import annotations

import argparse
import hashlib
import importlib
import json
import os
import pickle
import sys
import time
import traceback
from dataclasses import dataclass, field
from typing import Any, Callable

VERIF_DIR = os.path.dirname(os.path.dirname(os.path.abspath(__file__)))
OUT_DIR = os.path.join(VERIF_DIR, 'out')
EVIDENCE_DIR = os.path.join(VERIF_DIR, 'evidence')
REPLAY_DIR = os.path.join(VERIF_DIR, 'replays')
KNOWN_FILE = os.path.join(VERIF_DIR, 'known_findings.json')


# ----------------------------------------------------------------------------------------------
# data structures


@dataclass
class Failure:
    key: str  # root-cause key: stable, specific (names the input class / call site)
    msg: str
    detail: Any = None

    def as_dict(self):
        return dict(key=self.key, msg=self.msg, detail=self.detail)


@dataclass
class Outcome:
    failures: list = field(default_factory=list)
    nontrivial: bool = False
    classes: list = field(default_factory=list)  # labels for the distribution report
    skipped: str | None = None  # reason the case was not judged (ill-posed, excluded by domain)
    ident: str | None = None  # distinctness key (defaults to hash of the spec)
    evaluations: int = 1  # how many separate executions this case stands for

    def fail(self, key, msg, detail=None):
        self.failures.append(Failure(key, msg, detail))


@dataclass
class SubCheck:
    name: str
    strategy: Callable[[str], Any]  # tier -> hypothesis strategy
    judge: Callable[[Any], Outcome]
    render: Callable[[Any], str] = lambda spec: json.dumps(spec, sort_keys=True)[:400]
    examples: dict = field(default_factory=lambda: dict(quick=200, thorough=2000))
    rule: str = ''
    max_skip_fraction: float = 0.5


class HarnessError(Exception):
    pass


class _Violation(Exception):
    pass


# ----------------------------------------------------------------------------------------------
# helpers


def canon(spec) -> str:
    return json.dumps(spec, sort_keys=True, separators=(',', ':'), default=_json_default)


def _json_default(o):
    try:
        import numpy as np

        if isinstance(o, np.generic):
            return o.item()
        if isinstance(o, np.ndarray):
            return o.tolist()
    except Exception:
        pass
    if isinstance(o, (set, frozenset)):
        return sorted(o)
    if isinstance(o, tuple):
        return list(o)
    return repr(o)


def spec_hash(spec) -> str:
    return hashlib.sha256(canon(spec).encode()).hexdigest()[:16]


def derive_seed(*parts) -> int:
    h = hashlib.sha256(':'.join(str(p) for p in parts).encode()).hexdigest()
    return int(h[:8], 16)


def load_known(prop):
    """Entries of known_findings.json for this property."""
    if not os.path.exists(KNOWN_FILE):
        return []
    with open(KNOWN_FILE) as f:
        data = json.load(f)
    return [e for e in data.get('findings', []) if e.get('property') == prop]


def key_matches(pattern: str, key: str) -> bool:
    """A known-finding key may end with '*' to cover a family of call sites; a pattern of the
    form '[feature]*' matches every key that carries that structural feature tag among its
    leading '[...]' tags (a case may carry several)."""
    if pattern.startswith('[') and pattern.endswith(']*'):
        import re

        lead = re.match(r'^(\[[^\]]*\])*', key).group(0)
        return pattern[:-1] in lead
    if '*' in pattern:
        # plain glob: '*' matches any run of characters, everything else literally
        parts = pattern.split('*')
        if not key.startswith(parts[0]):
            return False
        pos = len(parts[0])
        for part in parts[1:-1]:
            i = key.find(part, pos)
            if i < 0:
                return False
            pos = i + len(part)
        return key.endswith(parts[-1]) and len(key) - len(parts[-1]) >= pos
    return key == pattern


# ----------------------------------------------------------------------------------------------
# shard execution


class ShardStats:
    def __init__(self):
        self.evaluations = 0
        self.cases = 0
        self.nontrivial = {}  # ident -> rendered sample (kept small)
        self.classes = {}
        self.skipped = {}
        self.known_hits = {}
        self.samples = []
        self.per_sub = {}

    def merge(self, other: 'ShardStats'):
        self.evaluations += other.evaluations
        self.cases += other.cases
        for k, v in other.nontrivial.items():
            self.nontrivial.setdefault(k, v)
        for d_self, d_other in (
            (self.classes, other.classes),
            (self.skipped, other.skipped),
            (self.known_hits, other.known_hits),
        ):
            for k, v in d_other.items():
                d_self[k] = d_self.get(k, 0) + v
        for k, v in other.per_sub.items():
            mine = self.per_sub.setdefault(k, dict(cases=0, nontrivial=0, skipped=0))
            for kk in mine:
                mine[kk] += v.get(kk, 0)
        self.samples += other.samples


def _account(stats: ShardStats, sub: SubCheck, spec, out: Outcome, known_keys):
    stats.cases += 1
    stats.evaluations += max(1, out.evaluations)
    ps = stats.per_sub.setdefault(sub.name, dict(cases=0, nontrivial=0, skipped=0))
    ps['cases'] += 1
    if out.skipped:
        stats.skipped[out.skipped] = stats.skipped.get(out.skipped, 0) + 1
        ps['skipped'] += 1
    for c in out.classes:
        stats.classes[c] = stats.classes.get(c, 0) + 1
    if out.nontrivial and not out.skipped:
        ident = out.ident or (sub.name + ':' + spec_hash(spec))
        if ident not in stats.nontrivial:
            ps['nontrivial'] += 1
            stats.nontrivial[ident] = 1
            if len([s for s in stats.samples if s.get('check') == sub.name]) < 2:
                stats.samples.append(dict(check=sub.name, case=sub.render(spec)))
    new = []
    hits = set()
    for f in out.failures:
        hit = None
        for k in known_keys:
            if key_matches(k, f.key):
                hit = k
                break
        if hit is not None:
            hits.add(hit)
        else:
            new.append(f)
    for hit in hits:  # counted once per case
        stats.known_hits[hit] = stats.known_hits.get(hit, 0) + 1
    return new


def run_subcheck_hypothesis(sub: SubCheck, tier, seed_value, n_examples, stats, known_keys,
                            shrink=True, max_rounds=3):
    """Drive one sub-check; returns list of (spec, [Failure]) with distinct root-cause keys."""
    from hypothesis import HealthCheck, Phase, given, seed, settings
    from hypothesis.internal.conjecture import engine as _hyp_engine

    # bound the time spent minimising one failure (the default hard cap is 300 s)
    _hyp_engine.MAX_SHRINKING_SECONDS = 40 if tier == 'quick' else 150

    found = []
    excluded = set(known_keys)
    remaining = n_examples
    for round_no in range(max_rounds):
        if remaining <= 0:
            break
        state = dict(last=None, count=0)

        def body(spec):
            state['count'] += 1
            out = sub.judge(spec)
            new = _account(stats, sub, spec, out, excluded)
            if new:
                state['last'] = (spec, new)
                raise _Violation(new[0].key)

        phases = (Phase.generate, Phase.shrink) if shrink else (Phase.generate,)
        test = given(sub.strategy(tier))(body)
        test = seed(derive_seed(seed_value, round_no))(test)
        test = settings(
            max_examples=remaining,
            database=None,
            deadline=None,
            derandomize=False,
            report_multiple_bugs=False,
            suppress_health_check=list(HealthCheck),
            phases=phases,
            print_blob=False,
        )(test)
        try:
            test()
            break
        except _Violation:
            spec, fails = state['last']
            found.append((spec, fails))
            for f in fails:
                excluded.add(f.key)
            remaining -= state['count']
        except BaseException as e:  # strategy / judge bug: harness error, never a verdict
            if type(e).__name__ in ('Unsatisfiable', 'FailedHealthCheck'):
                raise HarnessError(f'{sub.name}: generator problem: {e!r}')
            raise HarnessError(
                f'{sub.name}: exception outside the oracle: {e!r}\n{traceback.format_exc(limit=20)}'
            )
    return found


def run_shard(mod, tier, seed_value, shard, nshards, known_keys, only=None, scale=1.0):
    stats = ShardStats()
    violations = []
    for sub in mod.SUBCHECKS:
        if only and sub.name not in only:
            continue
        total = int(sub.examples.get(tier, 100) * scale)
        n = total // nshards + (1 if shard < total % nshards else 0)
        if n <= 0:
            continue
        s = derive_seed(seed_value, mod.PROPERTY, sub.name, shard)
        for spec, fails in run_subcheck_hypothesis(
            sub, tier, s, n, stats, known_keys, shrink=True
        ):
            violations.append(dict(check=sub.name, spec=spec, failures=[f.as_dict() for f in fails]))
    return dict(stats=stats, violations=violations)


# ----------------------------------------------------------------------------------------------
# parent side


def _fork_shards(mod, tier, seed_value, nshards, known_keys, only, scale, cap_s):
    os.makedirs(os.path.join(OUT_DIR, 'work'), exist_ok=True)
    children = {}
    for shard in range(nshards):
        path = os.path.join(OUT_DIR, 'work', f'{mod.PROPERTY}.{os.getpid()}.{shard}.pkl')
        sys.stdout.flush()
        sys.stderr.flush()
        pid = os.fork()
        if pid == 0:
            code = 0
            try:
                try:
                    res = run_shard(mod, tier, seed_value, shard, nshards, known_keys, only, scale)
                    payload = ('ok', res)
                except HarnessError as e:
                    payload = ('harness', str(e))
                except BaseException as e:
                    payload = ('harness', f'{e!r}\n{traceback.format_exc(limit=20)}')
                with open(path + '.tmp', 'wb') as f:
                    pickle.dump(payload, f)
                os.replace(path + '.tmp', path)
            except BaseException:
                code = 3
            finally:
                os._exit(code)
        children[pid] = (shard, path)
    results = []
    errors = []
    deadline = time.time() + cap_s
    pending = dict(children)
    while pending:
        for pid in list(pending):
            done, status = os.waitpid(pid, os.WNOHANG)
            if done:
                shard, path = pending.pop(pid)
                if os.path.exists(path):
                    with open(path, 'rb') as f:
                        kind, payload = pickle.load(f)
                    os.remove(path)
                    if kind == 'ok':
                        results.append(payload)
                    else:
                        errors.append(f'shard {shard}: {payload}')
                else:
                    errors.append(f'shard {shard}: died with status {status}')
        if pending:
            if time.time() > deadline:
                for pid in pending:
                    try:
                        os.kill(pid, 9)
                    except OSError:
                        pass
                for pid in list(pending):
                    os.waitpid(pid, 0)
                    errors.append(f'shard {pending[pid][0]}: wall-clock cap {cap_s}s hit (inconclusive)')
                pending.clear()
            else:
                time.sleep(0.05)
    return results, errors


def _find_sub(mod, name):
    for s in mod.SUBCHECKS:
        if s.name == name:
            return s
    raise HarnessError(f'unknown sub-check {name!r} in {mod.PROPERTY}')


def judge_saved(mod, check_name, spec) -> Outcome:
    """Run one saved case through the oracle, in a child (keeps the parent healthy)."""
    from . import isolate

    sub = _find_sub(mod, check_name)
    res = isolate.call(sub.judge, spec, timeout=600)
    if not res['ok']:
        raise HarnessError(
            f'replay of {check_name} raised outside the oracle: {res["exc_type"]}: '
            f'{res["exc_msg"]}\n{res["tb"]}'
        )
    return res['value']


def write_replay(prop, check_name, spec, failures, seed_value):
    d = os.path.join(OUT_DIR, 'replays', prop)
    os.makedirs(d, exist_ok=True)
    key = failures[0]['key']
    name = hashlib.sha256((key + canon(spec)).encode()).hexdigest()[:12]
    path = os.path.join(d, f'{name}.json')
    with open(path, 'w') as f:
        json.dump(
            dict(property=prop, check=check_name, seed=seed_value, spec=spec, failures=failures),
            f, indent=1, sort_keys=True, default=_json_default,
        )
    return path


def main(argv=None):
    ap = argparse.ArgumentParser()
    ap.add_argument('property')
    ap.add_argument('--tier', default=os.environ.get('VERIF_TIER') or 'quick',
                    choices=['quick', 'thorough'])
    ap.add_argument('--replay', default=None)
    ap.add_argument('--shards', type=int, default=None)
    ap.add_argument('--only', default=None, help='comma-separated sub-check names')
    ap.add_argument('--scale', type=float, default=float(os.environ.get('VERIF_SCALE', '1')))
    ap.add_argument('--no-evidence', action='store_true')
    args = ap.parse_args(argv)

    t0 = time.time()
    prop = args.property.upper()
    try:
        seed_value = int(os.environ.get('VERIF_SEED', '1') or '1')
    except ValueError:
        seed_value = derive_seed(os.environ.get('VERIF_SEED'))
    src = os.environ.get('VERIF_REPO_SRC')
    if src:
        sys.path.insert(0, src)
    os.environ.setdefault('BIOGEME_VERIF', '1')
    import logging

    logging.disable(logging.CRITICAL)
    import warnings

    warnings.filterwarnings('ignore')

    try:
        mod = importlib.import_module(f'vlib.checks.{prop.lower()}')
    except Exception as e:
        print(f'HARNESS-ERROR property={prop} cannot import check: {e!r}')
        traceback.print_exc()
        return 2

    only = set(args.only.split(',')) if args.only else None

    # ---- single replay
    if args.replay:
        with open(args.replay) as f:
            rep = json.load(f)
        try:
            out = judge_saved(mod, rep['check'], rep['spec'])
        except HarnessError as e:
            print(f'HARNESS-ERROR property={prop} {e}')
            return 2
        if out.failures:
            for fl in out.failures:
                print(f'  failure key={fl.key}: {fl.msg}')
            print(f'VIOLATION property={prop} replay={args.replay}')
            return 1
        print(f'replay passes: {args.replay}')
        return 0

    violations = []  # (check, spec, failures(dicts), path)
    known_lines = []
    harness_errors = []

    # ---- known findings: probe each; a probe that still fails keeps its key excluded
    known_keys = []
    n_probe = 0
    entries = load_known(prop)
    entries = [e for e in entries if e.get('status') == 'known'] + \
              [e for e in entries if e.get('status') != 'known']
    for entry in entries:
        probe = entry.get('probe')
        status = entry.get('status')
        if not probe:
            if status == 'known':
                known_keys.append(entry['key'])
                known_lines.append(f'KNOWN-FINDING: property={prop} {entry["what"]}')
            continue
        try:
            out = judge_saved(mod, probe['check'], probe['spec'])
        except HarnessError as e:
            harness_errors.append(f'probe {entry["key"]}: {e}')
            continue
        n_probe += 1
        matching = [f for f in out.failures if key_matches(entry['key'], f.key)]
        others = [f for f in out.failures if not key_matches(entry['key'], f.key)]
        if status == 'known':
            if matching:
                known_keys.append(entry['key'])
                known_lines.append(f'KNOWN-FINDING: property={prop} {entry["what"]}')
            # if the probe passes, the defect is gone: exclusion lifted, nothing printed
        else:  # fixed: plain regression case (still-open known findings are not re-reported)
            others = [f for f in out.failures
                      if not any(key_matches(k, f.key) for k in known_keys)]
        if others:
            fl = [f.as_dict() for f in others]
            path = write_replay(prop, probe['check'], probe['spec'], fl, seed_value)
            violations.append((probe['check'], probe['spec'], fl, path))

    # ---- committed regression replays
    n_replayed = 0
    rdir = os.path.join(REPLAY_DIR, prop)
    if os.path.isdir(rdir):
        for fn in sorted(os.listdir(rdir)):
            if not fn.endswith('.json'):
                continue
            with open(os.path.join(rdir, fn)) as f:
                rep = json.load(f)
            if only and rep['check'] not in only:
                continue
            try:
                out = judge_saved(mod, rep['check'], rep['spec'])
            except HarnessError as e:
                harness_errors.append(f'replay {fn}: {e}')
                continue
            n_replayed += 1
            new = [f for f in out.failures
                   if not any(key_matches(k, f.key) for k in known_keys)]
            if new:
                violations.append((rep['check'], rep['spec'], [f.as_dict() for f in new],
                                   os.path.join(rdir, fn)))

    # ---- generated search
    budgets = getattr(mod, 'BUDGETS', {})
    nshards = args.shards or budgets.get(args.tier, {}).get('shards') or (8 if args.tier == 'quick' else 16)
    cap = budgets.get(args.tier, {}).get('cap_s') or (3600 if args.tier == 'quick' else 14400)
    results, errs = _fork_shards(mod, args.tier, seed_value, nshards, known_keys, only,
                                 args.scale, cap)
    harness_errors += errs
    stats = ShardStats()
    seen_keys = set()
    for fl_check, _, fl, _ in violations:
        for f in fl:
            seen_keys.add(f['key'])
    for res in results:
        stats.merge(res['stats'])
        for v in res['violations']:
            keys = tuple(sorted(f['key'] for f in v['failures']))
            if all(k in seen_keys for k in keys):
                continue
            seen_keys.update(keys)
            path = write_replay(prop, v['check'], v['spec'], v['failures'], seed_value)
            violations.append((v['check'], v['spec'], v['failures'], path))

    # ---- sanity of the campaign itself
    for sub in mod.SUBCHECKS:
        if only and sub.name not in only:
            continue
        ps = stats.per_sub.get(sub.name)
        if ps is None or ps['cases'] == 0:
            if not errs and not violations:
                harness_errors.append(f'{sub.name}: no case was generated')
            continue
        if ps['skipped'] > sub.max_skip_fraction * ps['cases']:
            harness_errors.append(
                f'{sub.name}: {ps["skipped"]}/{ps["cases"]} cases not judged '
                f'(> {sub.max_skip_fraction:.0%}): generator must be fixed')

    wall = time.time() - t0
    rule = getattr(mod, 'RULE', '') or ' | '.join(f'{s.name}: {s.rule}' for s in mod.SUBCHECKS)
    evidence = dict(
        property_id=prop,
        tier=args.tier,
        seed=seed_value,
        level=mod.LEVEL,
        coverage=dict(
            evaluations=stats.evaluations,
            cases=stats.cases,
            distinct_nontrivial=len(stats.nontrivial),
            rule=rule,
            samples=stats.samples[:12] or [dict(note='no non-trivial sample recorded')],
            per_subcheck=stats.per_sub,
            classes=dict(sorted(stats.classes.items())),
            not_judged=stats.skipped,
            known_finding_hits=stats.known_hits,
            replays_run=n_replayed,
            probes_run=n_probe,
            shards=nshards,
            exhaustive=False,
        ),
        assumptions=list(getattr(mod, 'ASSUMPTIONS', [])),
        wall_s=round(wall, 2),
        violations=len(violations),
    )
    if harness_errors:
        evidence['coverage']['harness_errors'] = harness_errors[:10]
    if not args.no_evidence and not only:
        os.makedirs(EVIDENCE_DIR, exist_ok=True)
        tmp = os.path.join(EVIDENCE_DIR, f'{prop}.json.tmp')
        with open(tmp, 'w') as f:
            json.dump(evidence, f, indent=1, sort_keys=True, default=_json_default)
        os.replace(tmp, os.path.join(EVIDENCE_DIR, f'{prop}.json'))

    for line in known_lines:
        print(line)
    print(f'[{prop}] tier={args.tier} seed={seed_value} cases={stats.cases} '
          f'evaluations={stats.evaluations} distinct_nontrivial={len(stats.nontrivial)} '
          f'not_judged={sum(stats.skipped.values())} known_hits={sum(stats.known_hits.values())} '
          f'wall={wall:.1f}s')
    for ps_name, ps in stats.per_sub.items():
        print(f'    {ps_name}: {ps}')
    if violations:
        for chk, spec, fl, path in violations:
            for f in fl:
                print(f'  [{chk}] key={f["key"]}: {f["msg"]}')
            print(f'VIOLATION property={prop} replay={path}')
        return 1
    if harness_errors:
        for e in harness_errors:
            print(f'HARNESS-ERROR property={prop} {e}')
        return 2
    return 0
