"""Verification library for michelbierlaire/biogeme (property-based testing)."""
