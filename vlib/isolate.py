"""Run a callable in a forked child and get its (picklable) result back.

The compiled engine keeps a static exception pointer that is never reset, so one engine
exception poisons the process. Every case that touches the engine runs in a child.
"""
import os
import pickle
import signal
import struct
import sys
import traceback


class HarnessFault(Exception):
    """An exception raised by /verif code itself inside the child: a harness bug, not a verdict."""


class ChildCrashed(Exception):
    """The child died without reporting (signal, os._exit in library code, ...)."""


class ChildTimeout(HarnessFault):
    """The child exceeded its time budget (SIGALRM): inconclusive, never a verdict."""


def _read_all(fd):
    chunks = []
    while True:
        b = os.read(fd, 1 << 16)
        if not b:
            break
        chunks.append(b)
    return b''.join(chunks)


def run_forked(fn, *args, timeout=120, **kwargs):
    """Return ('ok', value) or ('exc', (type_name, module, message, tb_text)).

    Raises ChildCrashed if nothing came back.
    """
    r, w = os.pipe()
    sys.stdout.flush()
    sys.stderr.flush()
    pid = os.fork()
    if pid == 0:
        # child
        os.close(r)
        code = 0
        try:
            # the compiled engine prints warnings straight to fd 1/2: keep the check's output clean
            dn = os.open(os.devnull, os.O_WRONLY)
            os.dup2(dn, 1)
            os.dup2(dn, 2)
        except OSError:
            pass
        try:
            try:
                signal.alarm(timeout)
            except Exception:
                pass
            try:
                value = fn(*args, **kwargs)
                payload = ('ok', value)
            except BaseException as e:  # noqa: the parent decides what it means
                payload = (
                    'exc',
                    (
                        type(e).__name__,
                        type(e).__module__,
                        str(e),
                        traceback.format_exc(limit=30),
                    ),
                )
            try:
                data = pickle.dumps(payload)
            except Exception as e:
                data = pickle.dumps(
                    ('exc', ('UnpicklableResult', 'vlib', repr(e), ''))
                )
            with os.fdopen(w, 'wb') as f:
                f.write(data)
        except BaseException:
            code = 3
        finally:
            os._exit(code)
    os.close(w)
    data = _read_all(r)
    os.close(r)
    _, status = os.waitpid(pid, 0)
    if not data and os.WIFSIGNALED(status) and os.WTERMSIG(status) == signal.SIGALRM:
        raise ChildTimeout(f'case exceeded its time budget of {timeout}s (inconclusive)')
    if not data:
        raise ChildCrashed(f'child exited with status {status} and no payload')
    return pickle.loads(data)


def call(fn, *args, **kwargs):
    """run_forked, but re-raise a generic error description as a tuple result.

    Returns dict(ok=bool, value=..., exc_type=..., exc_module=..., exc_msg=..., tb=...).
    """
    try:
        kind, payload = run_forked(fn, *args, **kwargs)
    except ChildCrashed as e:
        return dict(ok=False, value=None, exc_type='ChildCrashed', exc_module='vlib',
                    exc_msg=str(e), tb='')
    if kind == 'ok':
        return dict(ok=True, value=payload, exc_type=None, exc_module=None,
                    exc_msg=None, tb=None)
    t, m, msg, tb = payload
    res = dict(ok=False, value=None, exc_type=t, exc_module=m, exc_msg=msg, tb=tb)
    if harness_fault(res):
        raise HarnessFault(f'{m}.{t}: {msg}\n{tb}')
    return res


def harness_fault(res) -> bool:
    """True if the exception reported by `call` was raised by code of /verif itself
    (innermost traceback frame under the verification library): a harness bug, not a verdict."""
    tb = res.get('tb') or ''
    files = [ln for ln in tb.splitlines() if ln.strip().startswith('File "')]
    if not files:
        return False
    return '/vlib/' in files[-1]
