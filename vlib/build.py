"""Turn specs (see refsem.py) into real biogeme objects."""
from __future__ import annotations

import numpy as np
import pandas as pd

# imported eagerly so that forked children (one per case) do not pay for the imports
import biogeme.biogeme  # noqa: F401
import biogeme.database  # noqa: F401
import biogeme.expressions  # noqa: F401
import biogeme.parameters  # noqa: F401


class _Ex:
    """All expression classes, wherever the package defines them."""

    def __getattr__(self, name):
        import biogeme.expressions as ex
        from biogeme.expressions import (binary_expressions, comparison_expressions,
                                         unary_expressions)

        for m in (ex, binary_expressions, comparison_expressions, unary_expressions):
            if hasattr(m, name):
                return getattr(m, name)
        raise AttributeError(name)


_EX = _Ex()


def _ex():
    return _EX


class Builder:
    """Builds the biogeme expression of a spec. `Ref k` nodes map to ONE Python object
    (sharing) unless `unshare` is set, in which case each reference is rebuilt afresh."""

    def __init__(self, shared=(), overloads=False, unshare=False):
        self.shared = list(shared)
        self.overloads = overloads
        self.unshare = unshare
        self.cache = {}

    def build(self, spec):
        ex = _ex()
        k = spec[0]
        b = self.build
        if k == 'Lit':
            return spec[1]  # raw Python literal, converted by the library itself
        if k == 'Num':
            return ex.Numeric(spec[1])
        if k == 'Beta':
            return ex.Beta(spec[1], spec[2], spec[3], spec[4], spec[5])
        if k == 'Var':
            return ex.Variable(spec[1])
        if k == 'Draws':
            return ex.bioDraws(spec[1], spec[2])
        if k == 'RV':
            return ex.RandomVariable(spec[1])
        if k == 'Ref':
            if self.unshare:
                return b(self.shared[spec[1]])
            if spec[1] not in self.cache:
                self.cache[spec[1]] = b(self.shared[spec[1]])
            return self.cache[spec[1]]
        if k in _BIN_CLASSES:
            left, right = b(spec[1]), b(spec[2])
            is_expr = [isinstance(x, ex.Expression) for x in (left, right)]
            if self.overloads and any(is_expr) and k in _OVERLOADS:
                return _OVERLOADS[k](left, right)
            if not any(is_expr) and k not in ('Min', 'Max') and False:
                pass
            cls = getattr(ex, _BIN_CLASSES[k])
            return cls(left, right)
        if k == 'Neg':
            c = b(spec[1])
            if self.overloads and isinstance(c, ex.Expression):
                return -c
            return ex.UnaryMinus(c)
        if k in _UN_CLASSES:
            return getattr(ex, _UN_CLASSES[k])(b(spec[1]))
        if k == 'PowC':
            c = b(spec[1])
            if self.overloads and isinstance(c, ex.Expression):
                return c ** spec[2]
            return ex.PowerConstant(c, float(spec[2]))
        if k == 'BelongsTo':
            return ex.BelongsTo(b(spec[1]), set(spec[2]))
        if k == 'Elem':
            return ex.Elem({kk: b(e) for kk, e in spec[2]}, b(spec[1]))
        if k == 'MultSum':
            return ex.bioMultSum([b(e) for e in spec[1]])
        if k == 'MultSumDict':
            return ex.bioMultSum({kk: b(e) for kk, e in spec[1]})
        if k == 'CondSum':
            from biogeme.expressions import ConditionalTermTuple

            return ex.ConditionalSum(
                [ConditionalTermTuple(condition=b(c), term=b(t)) for c, t in spec[1]])
        if k == 'LinUtil':
            from biogeme.expressions import LinearTermTuple

            return ex.bioLinearUtility([LinearTermTuple(beta=b(bb), x=b(x)) for bb, x in spec[1]])
        if k == 'LogLogit':
            util = {a: b(u) for a, u, _ in spec[2]}
            choice = b(spec[1])
            if all(av is None for _, _, av in spec[2]):
                if spec[2] and len(spec) > 3 and spec[3] == 'full':
                    return ex._bioLogLogitFullChoiceSet(util, choice=choice)
                return ex._bioLogLogit(util, None, choice)
            av = {a: (b(av) if av is not None else 1) for a, _, av in spec[2]}
            # optional 5th element: the order in which the availability dictionary lists its keys
            if len(spec) > 4 and spec[4]:
                av = {a: av[a] for a in spec[4]}
            return ex._bioLogLogit(util, av, choice)
        if k == 'Integrate':
            return ex.Integrate(b(spec[1]), spec[2])
        if k == 'Derive':
            return ex.Derive(b(spec[1]), spec[2])
        raise ValueError(f'cannot build {k}')


_BIN_CLASSES = dict(Plus='Plus', Minus='Minus', Times='Times', Divide='Divide', Power='Power',
                    Min='bioMin', Max='bioMax', And='And', Or='Or', Eq='Equal', Ne='NotEqual',
                    Le='LessOrEqual', Ge='GreaterOrEqual', Lt='Less', Gt='Greater')
_UN_CLASSES = dict(exp='exp', log='log', logzero='logzero', sin='sin', cos='cos',
                   NormalCdf='bioNormalCdf', MonteCarlo='MonteCarlo',
                   PanelTraj='PanelLikelihoodTrajectory')
_OVERLOADS = dict(
    Plus=lambda a, b: a + b, Minus=lambda a, b: a - b, Times=lambda a, b: a * b,
    Divide=lambda a, b: a / b, Power=lambda a, b: a ** b, And=lambda a, b: a & b,
    Or=lambda a, b: a | b, Eq=lambda a, b: a == b, Ne=lambda a, b: a != b,
    Le=lambda a, b: a <= b, Ge=lambda a, b: a >= b, Lt=lambda a, b: a < b,
    Gt=lambda a, b: a > b,
)


def build_expression(case_or_spec, shared=None, overloads=False, unshare=False):
    if isinstance(case_or_spec, dict):
        shared = case_or_spec.get('shared', [])
        overloads = case_or_spec.get('overloads', overloads)
        spec = case_or_spec['root']
    else:
        spec = case_or_spec
    return Builder(shared or [], overloads, unshare).build(spec)


def build_dataframe(table):
    """table = {'columns': [[name, dtype, [values...]], ...]} -> pandas DataFrame."""
    data = {}
    for name, dtype, values in table['columns']:
        data[name] = np.array(values, dtype=np.int64 if dtype == 'int' else np.float64)
    return pd.DataFrame(data)


def build_database(table, name='verif'):
    import biogeme.database as db

    return db.Database(name, build_dataframe(table))


def table_rows(table):
    """List of row dicts (column -> float) of a table spec."""
    cols = table['columns']
    n = len(cols[0][2]) if cols else 0
    return [{name: float(values[i]) for name, _, values in cols} for i in range(n)]
