"""Generators, builders and closed forms shared by the choice-model checks (C05, C06)."""
from __future__ import annotations

import math

import numpy as np
from hypothesis import strategies as st

from . import build, gen, refsem

import biogeme.models  # noqa: F401  (eager import: forked children must not pay for it)
import biogeme.nests  # noqa: F401


# ---------------------------------------------------------------------------------------------
# generation


@st.composite
def utilities(draw, info, alts, betas_pool, max_terms=3):
    """{alt: spec} linear-in-parameters utilities with moderate magnitudes."""
    cols = info['real'] + info['pos']
    betas = {}
    out = []
    for a in alts:
        n = draw(st.integers(1, max_terms))
        terms = []
        for _ in range(n):
            kind = draw(st.sampled_from(['bx', 'bx', 'b', 'x', 'num', 'logp']))
            if kind in ('bx', 'b', 'logp'):
                name = draw(st.sampled_from(betas_pool))
                if name not in betas:
                    betas[name] = ['Beta', name, draw(gen.dyadic(-2, 2)), None, None,
                                   draw(st.sampled_from([0, 0, 0, 1]))]
                b = list(betas[name])
                if kind == 'bx':
                    terms.append(['Times', b, ['Var', draw(st.sampled_from(cols))]])
                elif kind == 'b':
                    terms.append(b)
                else:
                    terms.append(['Times', b, ['log', ['Var', draw(st.sampled_from(info['pos']))]]])
            elif kind == 'x':
                terms.append(['Var', draw(st.sampled_from(cols))])
            else:
                terms.append(['Num', draw(gen.dyadic(-3, 3))])
        u = terms[0]
        for t in terms[1:]:
            u = ['Plus', u, t]
        if u[0] in ('Num',):
            u = ['Plus', u, ['Var', draw(st.sampled_from(cols))]]
        out.append([a, u])
    return out


@st.composite
def availabilities(draw, info, alts, table=None):
    """None (full choice set) or [[alt, spec]] using the table's availability columns. With the table at hand,
    alternatives that no row chooses may be switched off by a plain 0, and the whole dictionary may consist of
    plain Python numbers."""
    if draw(st.floats(0, 1)) < 0.2:
        return None
    never_chosen = set()
    if table is not None and info.get('choice'):
        chosen = {int(v) for c in table['columns'] if c[0] == info['choice'] for v in c[2]}
        never_chosen = {a for a in alts if a not in chosen}
    all_plain = bool(never_chosen) and draw(st.floats(0, 1)) < 0.25
    out = []
    for a in alts:
        if all_plain:
            out.append([a, ['Lit', 0 if a in never_chosen and draw(st.booleans()) else 1]])
            continue
        kind = draw(st.sampled_from(['col', 'col', 'col', 'one', 'lit'] + (['zero', 'zero_lit'] if a in never_chosen else [])))
        if kind == 'zero':
            out.append([a, ['Num', 0]])
        elif kind == 'zero_lit':
            out.append([a, ['Lit', 0]])
        elif kind == 'col':
            out.append([a, ['Var', info['av'][str(a)]]])
        elif kind == 'one':
            out.append([a, ['Num', 1]])
        else:
            out.append([a, ['Lit', 1]])
    return out


def mu_values(lo=1.0, hi=4.0):
    return st.one_of(gen.dyadic(lo, hi, 4), st.floats(lo, hi).map(lambda x: round(x, 3)))


@st.composite
def param_or_number(draw, value, name, allow_beta=True):
    """A number, a Numeric or a Beta (free or fixed) carrying `value`."""
    kind = draw(st.sampled_from(['lit', 'num', 'beta_free', 'beta_fixed'] if allow_beta else ['lit', 'num']))
    if kind == 'lit':
        return ['Lit', value]
    if kind == 'num':
        return ['Num', value]
    return ['Beta', name, value, 1.0 if kind == 'beta_free' else None, None, 0 if kind == 'beta_free' else 1]


@st.composite
def nested_structure(draw, alts, force_all_one=False, below_one=False):
    """Partition of a subset of the alternatives into nests; the rest is left alone.
    below_one: some nest parameters are plain numbers in [0.5, 1) (the formulas are defined for any positive value)."""
    alts = list(alts)
    perm = draw(st.permutations(alts))
    n_alone = draw(st.integers(0, max(0, len(alts) - 2))) if draw(st.booleans()) else 0
    nested = list(perm[: len(alts) - n_alone])
    k = draw(st.integers(1, max(1, min(3, len(nested)))))
    # split `nested` into k non-empty groups
    cuts = sorted(draw(st.lists(st.integers(1, max(1, len(nested) - 1)), min_size=k - 1, max_size=k - 1,
                                unique=True))) if len(nested) > 1 and k > 1 else []
    groups, prev = [], 0
    for c in cuts + [len(nested)]:
        if c > prev:
            groups.append(nested[prev:c])
        prev = c
    nests = []
    for i, g in enumerate(groups):
        mu_m = 1.0 if force_all_one else draw(mu_values())
        if below_one and not force_all_one and draw(st.booleans()):
            nests.append([draw(param_or_number(draw(gen.dyadic(0.5, 0.9375, 16)), f'MU_{i}', allow_beta=False)), g])
            continue
        nests.append([draw(param_or_number(mu_m, f'MU_{i}')), g])
    return nests


@st.composite
def cross_nested_structure(draw, alts, degenerate=False, below_one=False):
    """Nests with allocation parameters. degenerate: disjoint nests, every alpha equal to one."""
    alts = list(alts)
    if degenerate:
        nests = draw(nested_structure(alts, below_one=below_one))
        return [[mu, [[a, ['Lit', 1.0] if draw(st.booleans()) else ['Num', 1.0]] for a in g]] for mu, g in nests]
    n_alone = draw(st.integers(0, max(0, len(alts) - 2))) if draw(st.floats(0, 1)) < 0.3 else 0
    perm = list(draw(st.permutations(alts)))
    members = perm[: len(alts) - n_alone]
    k = draw(st.integers(1, 3))
    nests = []
    assigned = set()
    for i in range(k):
        subset = [a for a in members if draw(st.booleans())]
        if i == k - 1:
            subset += [a for a in members if a not in assigned and a not in subset]
        if not subset:
            subset = [members[0]]
        assigned.update(subset)
        alphas = []
        for a in subset:
            v = draw(gen.dyadic(0.125, 1.0, 8))
            alphas.append([a, draw(param_or_number(v, f'ALPHA_{i}_{a}', allow_beta=draw(st.booleans())))])
            if alphas[-1][1][0] == 'Beta':
                alphas[-1][1][3] = None  # no bound on allocation parameters
                if alphas[-1][1][5] == 0 and draw(st.floats(0, 1)) < 0.4:
                    # a free allocation parameter that STARTS at zero and is evaluated elsewhere
                    # (the value used for evaluation travels in case['betas'])
                    alphas[-1][1] = ['Beta', alphas[-1][1][1], 0.0, None, None, 0, v]
        nests.append([draw(param_or_number(draw(mu_values()), f'MU_{i}')), alphas])
    return nests


# ---------------------------------------------------------------------------------------------
# building the real model expressions


def _val(spec):
    """Python object for a parameter-like spec."""
    return build.Builder([]).build(spec[:6] if spec[0] == 'Beta' else spec)


def _nest_name(case, i):
    mode = case.get('nest_names', 'indexed')
    return {'indexed': f'n{i}', 'none': None, 'same': 'nest'}[mode]


def build_nests(case, kind, tuple_syntax=False):
    import biogeme.nests as bn

    alts = case['alts']
    if kind == 'nested':
        if tuple_syntax:
            return tuple((_val(mu), list(g)) for mu, g in case['nests'])
        return bn.NestsForNestedLogit(
            choice_set=list(alts),
            tuple_of_nests=tuple(bn.OneNestForNestedLogit(nest_param=_val(mu), list_of_alternatives=list(g),
                                                          name=_nest_name(case, i))
                                 for i, (mu, g) in enumerate(case['nests'])))
    if tuple_syntax:
        return tuple((_val(mu), {a: _val(al) for a, al in alphas}) for mu, alphas in case['nests'])
    return bn.NestsForCrossNestedLogit(
        choice_set=list(alts),
        tuple_of_nests=tuple(bn.OneNestForCrossNestedLogit(nest_param=_val(mu),
                                                           dict_of_alpha={a: _val(al) for a, al in alphas},
                                                           name=_nest_name(case, i))
                             for i, (mu, alphas) in enumerate(case['nests'])))


def build_utils(case, shift=None):
    b = build.Builder([])
    out = {}
    for a, u in case['utils']:
        e = b.build(u)
        if shift is not None:
            e = e + shift
        out[a] = e
    return out


def build_av(case):
    if case['av'] is None:
        return None
    b = build.Builder([])
    av = {a: b.build(s) for a, s in case['av']}
    # the availability dictionary may list the alternatives in another order than the utilities
    order = case.get('av_order')
    if order:
        av = {a: av[a] for a in order}
    return av


def model_expression(case, model, choice, log=False, shift=None, tuple_syntax=False, mu_override=None, objects=None):
    """The library's expression for P(choice) (or its logarithm) under `model`.

    `objects`: a dictionary kept by the caller; when given, the utilities, availabilities, nests and generating terms are
    built ONCE and the same Python objects are handed to every call (what a user script does)."""
    import biogeme.models as models

    if objects is not None:
        key = ('shift' if shift is not None else 'plain', tuple_syntax)
        if key not in objects:
            objects[key] = dict(util=build_utils(case, shift), av=build_av(case),
                                nests=(build_nests(case, 'cnl' if model.startswith('cnl') else 'nested', tuple_syntax)
                                       if model not in ('logit', 'mev') else None),
                                log_gi=({a: build.Builder([]).build(s_) for a, s_ in case['log_gi']} if model == 'mev' else None))
        o = objects[key]
        mu = mu_override if mu_override is not None else (_val(case['mu']) if case.get('mu') is not None else None)
        if model == 'logit':
            return (models.loglogit if log else models.logit)(o['util'], o['av'], choice)
        if model == 'nested':
            return (models.lognested if log else models.nested)(o['util'], o['av'], o['nests'], choice)
        if model == 'nested_mu':
            return (models.lognested_mev_mu if log else models.nested_mev_mu)(o['util'], o['av'], o['nests'], choice, mu)
        if model == 'cnl':
            return (models.logcnl if log else models.cnl)(o['util'], o['av'], o['nests'], choice)
        if model == 'cnlmu':
            return (models.logcnlmu if log else models.cnlmu)(o['util'], o['av'], o['nests'], choice, mu)
        return (models.logmev if log else models.mev)(o['util'], o['log_gi'], o['av'], choice)
    util = build_utils(case, shift)
    av = build_av(case)
    mu = mu_override if mu_override is not None else (_val(case['mu']) if case.get('mu') is not None else None)
    if model == 'logit':
        return (models.loglogit if log else models.logit)(util, av, choice)
    if model == 'nested':
        return (models.lognested if log else models.nested)(util, av, build_nests(case, 'nested', tuple_syntax), choice)
    if model == 'nested_mu':
        return (models.lognested_mev_mu if log else models.nested_mev_mu)(
            util, av, build_nests(case, 'nested', tuple_syntax), choice, mu)
    if model == 'cnl':
        return (models.logcnl if log else models.cnl)(util, av, build_nests(case, 'cnl', tuple_syntax), choice)
    if model == 'cnlmu':
        return (models.logcnlmu if log else models.cnlmu)(util, av, build_nests(case, 'cnl', tuple_syntax), choice, mu)
    if model == 'mev':
        b = build.Builder([])
        log_gi = {a: b.build(s) for a, s in case['log_gi']}
        return (models.logmev if log else models.mev)(util, log_gi, av, choice)
    raise ValueError(model)


# ---------------------------------------------------------------------------------------------
# closed forms (written from the textbook definitions, numpy only)


def row_utilities(case, row, betas=None, shift=0.0):
    out = {}
    for a, u in case['utils']:
        v = refsem.evaluate(u, refsem.Env(row=row, betas=betas or {}), refsem.EVAlg())
        out[a] = v.v + shift
    return out


def row_availability(case, row):
    if case['av'] is None:
        return {a: True for a in case['alts']}
    return {a: refsem.evaluate(s, refsem.Env(row=row), refsem.EVAlg()).v != 0 for a, s in case['av']}


def _pv(spec, betas=None):
    """Numeric value of a parameter-like spec (a 7th element of a Beta spec is the value at which it
    is evaluated, supplied to the library through a betas dictionary)."""
    if spec[0] == 'Beta':
        if len(spec) > 6:
            return float(spec[6])
        return float((betas or {}).get(spec[1], spec[2]))
    return float(spec[1])


def evaluation_betas(case):
    """Dictionary of parameter values to pass to get_value_c for parameters evaluated away from their initial value."""
    out = {}
    for _, members in (case.get('nests') or []):
        for m in members:
            if isinstance(m, list) and isinstance(m[1], list) and m[1][0] == 'Beta' and len(m[1]) > 6:
                out[m[1][1]] = m[1][6]
    return out or None


def reference_probabilities(case, model, row, betas=None, shift=0.0):
    """{alt: probability} from the closed forms; alternatives that are unavailable get 0."""
    V = row_utilities(case, row, betas, shift)
    av = row_availability(case, row)
    alts = list(case['alts'])
    if not any(av[a] for a in alts):
        raise refsem.OutOfDomain('no available alternative')
    vmax = max(V[a] for a in alts if av[a])
    if model == 'logit':
        w = {a: math.exp(V[a] - vmax) if av[a] else 0.0 for a in alts}
        s = sum(w.values())
        return {a: w[a] / s for a in alts}
    if model == 'mev':
        lg = {a: refsem.evaluate(s, refsem.Env(row=row, betas=betas or {}), refsem.EVAlg()).v
              for a, s in case['log_gi']}
        hm = max(V[a] + lg[a] for a in alts if av[a])
        w = {a: math.exp(V[a] + lg[a] - hm) if av[a] else 0.0 for a in alts}
        s = sum(w.values())
        return {a: w[a] / s for a in alts}
    mu = _pv(case['mu'], betas) if model in ('nested_mu', 'cnlmu') else 1.0
    # every model below is a sum over nests of (within-nest share) x (nest share)
    if model in ('nested', 'nested_mu'):
        nests = [(_pv(m, betas), {a: 1.0 for a in g}) for m, g in case['nests']]
        nested_alts = {a for _, g in nests for a in g}
        nests += [(mu, {a: 1.0}) for a in alts if a not in nested_alts]
        alpha_power = lambda alpha, mu_m: 1.0  # noqa: E731
    else:
        nests = [(_pv(m, betas), {a: _pv(al, betas) for a, al in alphas}) for m, alphas in case['nests']]
        nested_alts = {a for _, g in nests for a in g}
        nests += [(mu, {a: 1.0}) for a in alts if a not in nested_alts]
        # biogeme's documented convention: alpha^(mu_m / mu) multiplies exp(mu_m V)
        alpha_power = lambda alpha, mu_m: alpha ** (mu_m / mu)  # noqa: E731
    terms = []
    for mu_m, members in nests:
        t = {a: (alpha_power(al, mu_m) * math.exp(mu_m * (V[a] - vmax)) if av.get(a, False) and al != 0 else 0.0)
             for a, al in members.items()}
        S = sum(t.values())
        terms.append((mu_m, t, S))
    denom = sum(S ** (mu / mu_m) for mu_m, _, S in terms if S > 0)
    P = {a: 0.0 for a in alts}
    for mu_m, t, S in terms:
        if S <= 0:
            continue
        nest_share = S ** (mu / mu_m) / denom
        for a, ta in t.items():
            P[a] += ta / S * nest_share
    return P
