"""Reference semantics of the expression language, independent of biogeme and of the engine.

Expression *specs* are nested lists (JSON):

  ['Num', v]  ['Lit', v]                         numeric constant node / raw Python literal operand
  ['Beta', name, value, lb, ub, status]          parameter (status 0 = free)
  ['Var', name]  ['Draws', name, type]  ['RV', name]
  [op, a, b]      op in Plus Minus Times Divide Power Min Max And Or Eq Ne Le Ge Lt Gt
  [op, a]         op in Neg exp log logzero sin cos NormalCdf MonteCarlo PanelTraj
  ['PowC', a, exponent]   ['BelongsTo', a, [members]]
  ['Elem', key, [[k, e], ...]]   ['MultSum', [e, ...]]   ['MultSumDict', [[k, e], ...]]
  ['CondSum', [[cond, term], ...]]   ['LinUtil', [[beta, var], ...]]
  ['LogLogit', choice, [[alt, util, av|None], ...]]      av None everywhere -> full choice set
  ['Integrate', a, rvname]   ['Derive', a, name]
  ['Ref', k]                                    k-th shared sub-tree of the case

The evaluator is generic over a numeric carrier:
  * EV  - float with a running absolute error bound and an exactness flag (well-posedness filter)
  * Jet - value, gradient, Hessian w.r.t. the free parameters (forward mode)
"""
from __future__ import annotations

import math

import numpy as np

U = 2.0 ** -52  # unit round-off (a little generous)
NORMAL_CDF_ABS = 5e-9  # accuracy granted to the engine's own normal CDF


class IllPosed(Exception):
    """The case sits on / near a discontinuity, domain boundary or overflow: not judged."""


class OutOfDomain(IllPosed):
    pass


BINARY = {'Plus', 'Minus', 'Times', 'Divide', 'Power', 'Min', 'Max', 'And', 'Or',
          'Eq', 'Ne', 'Le', 'Ge', 'Lt', 'Gt'}
UNARY = {'Neg', 'exp', 'log', 'logzero', 'sin', 'cos', 'NormalCdf', 'MonteCarlo', 'PanelTraj'}
COMPARISONS = {'Eq', 'Ne', 'Le', 'Ge', 'Lt', 'Gt'}


# ---------------------------------------------------------------------------------------------
# carrier 1: value with error bound


class EV:
    __slots__ = ('v', 'e', 'exact')

    def __init__(self, v, e=0.0, exact=False):
        v = float(v)
        if not math.isfinite(v) or abs(v) > 1e150:
            raise IllPosed('overflow')
        self.v = v
        self.e = float(e)
        self.exact = bool(exact) and abs(v) < 2.0 ** 50

    @staticmethod
    def leaf(v):
        v = float(v)
        return EV(v, 0.0, v == math.floor(v))

    def __repr__(self):
        return f'EV({self.v!r}+-{self.e:.2e}{" exact" if self.exact else ""})'


def _rnd(v):
    return U * abs(v)


class EVAlg:
    """Arithmetic on EV."""

    name = 'ev'

    def const(self, v):
        return EV.leaf(v)

    def val(self, x):
        return x.v

    def add(self, a, b):
        v = a.v + b.v
        ex = a.exact and b.exact
        return EV(v, 0.0 if ex else a.e + b.e + _rnd(v), ex)

    def sub(self, a, b):
        v = a.v - b.v
        ex = a.exact and b.exact
        return EV(v, 0.0 if ex else a.e + b.e + _rnd(v), ex)

    def mul(self, a, b):
        v = a.v * b.v
        ex = a.exact and b.exact
        return EV(v, 0.0 if ex else abs(a.v) * b.e + abs(b.v) * a.e + a.e * b.e + _rnd(v), ex)

    def neg(self, a):
        return EV(-a.v, a.e, a.exact)

    def div(self, a, b):
        if abs(b.v) <= 4 * b.e or abs(b.v) < 1e-150:
            raise IllPosed('division by (almost) zero')
        v = a.v / b.v
        return EV(v, (a.e + abs(v) * b.e) / (abs(b.v) - b.e) + _rnd(v), False)

    def exp(self, a):
        if a.v > 300:
            raise IllPosed('overflow in exp')
        v = math.exp(a.v)
        return EV(v, v * math.expm1(min(a.e, 50.0)) + 2 * _rnd(v), False)

    def log(self, a):
        if a.v - 4 * a.e <= 0 or a.v < 1e-150:
            raise OutOfDomain('log of a non-positive (or not safely positive) number')
        v = math.log(a.v)
        return EV(v, a.e / (a.v - a.e) + 2 * _rnd(v) + 2 * U, False)

    def sin(self, a):
        v = math.sin(a.v)
        return EV(v, a.e + 2 * U * (1 + abs(a.v)), False)

    def cos(self, a):
        v = math.cos(a.v)
        return EV(v, a.e + 2 * U * (1 + abs(a.v)), False)

    def ncdf(self, a):
        v = 0.5 * math.erfc(-a.v / math.sqrt(2.0))
        return EV(v, 0.3989422804014327 * a.e + NORMAL_CDF_ABS, False)

    def pow(self, a, b):
        if a.v - 4 * a.e <= 0 or a.v < 1e-150:
            raise OutOfDomain('power with a non-positive (or not safely positive) base')
        return self.exp(self.mul(b, self.log(a)))

    def powc(self, a, c):
        c = float(c)
        if c == math.floor(c) and abs(c) <= 8:
            # integer exponent: defined for every base except 0 with a negative exponent
            if c == 0:
                if a.v == 0 or abs(a.v) <= 4 * a.e:
                    raise OutOfDomain('0**0 (power arguments must be positive in the regular domain)')
                return EV(1.0, 0.0, True)
            if c < 0 and abs(a.v) <= 4 * a.e:
                raise IllPosed('negative integer power of (almost) zero')
            if c < 0 and a.v == 0:
                raise OutOfDomain('negative power of zero')
            v = a.v ** c
            # d/da a^c = c a^(c-1)
            try:
                de = abs(c) * abs(a.v) ** (c - 1) * a.e if a.e > 0 else 0.0
            except ZeroDivisionError:
                raise IllPosed('negative integer power of zero')
            ex = a.exact and c > 0
            if c >= 1:
                # |f(a + d) - f(a)| <= c (|a| + e)^(c-1) e : stays finite when a is (almost) zero
                de = abs(c) * (abs(a.v) + a.e) ** (c - 1) * a.e
                bound = de + 8 * _rnd(v)
            else:
                bound = de * (1 + 8 * a.e / max(abs(a.v), 1e-300)) + 8 * _rnd(v)
            if not math.isfinite(bound):
                raise IllPosed('error bound of a power is not finite')
            return EV(v, 0.0 if ex else bound, ex)
        return self.pow(a, EV.leaf(c))

    # --- switching ---
    def _separated(self, a, b):
        if a.exact and b.exact:
            return True
        if a.e == 0.0 and b.e == 0.0:
            # two quantities known without any error (leaves: constants, parameters, data entries): their
            # comparison is as exact as a comparison of integers, however close they are
            return True
        return abs(a.v - b.v) > 4 * (a.e + b.e) + 1e-9 * (abs(a.v) + abs(b.v)) + 1e-300

    def truth(self, a):
        """Is a non-zero?  (a must be safely zero or safely non-zero)."""
        if a.v == 0.0:
            if a.exact or a.e == 0.0:
                return False
            raise IllPosed('truth value of an inexact zero')
        if abs(a.v) <= 4 * a.e:
            raise IllPosed('truth value of an almost-zero number')
        return True

    def compare(self, op, a, b):
        if not self._separated(a, b):
            raise IllPosed('comparison of (almost) equal inexact numbers')
        r = {'Eq': a.v == b.v, 'Ne': a.v != b.v, 'Le': a.v <= b.v, 'Ge': a.v >= b.v,
             'Lt': a.v < b.v, 'Gt': a.v > b.v}[op]
        return EV(1.0 if r else 0.0, 0.0, True)

    def minimum(self, a, b):
        if a.v == b.v:
            return EV(a.v, max(a.e, b.e), a.exact and b.exact)
        if not self._separated(a, b):
            # continuous at the switch: either branch is fine, the bound covers both
            return EV(min(a.v, b.v), max(a.e, b.e) + abs(a.v - b.v), False)
        return a if a.v < b.v else b

    def maximum(self, a, b):
        if a.v == b.v:
            return EV(a.v, max(a.e, b.e), a.exact and b.exact)
        if not self._separated(a, b):
            return EV(max(a.v, b.v), max(a.e, b.e) + abs(a.v - b.v), False)
        return a if a.v > b.v else b

    def intkey(self, a):
        if not a.exact:
            r = round(a.v)
            if abs(a.v - r) > 1e-9 or a.e > 1e-9:
                raise IllPosed('selection key is not an integer')
            raise IllPosed('selection key is an inexact integer')
        return int(a.v)

    def member(self, a, members):
        if a.exact or a.e == 0.0:
            return any(float(np.float32(m)) == a.v for m in members)
        for m in members:
            if abs(a.v - float(m)) <= 4 * a.e + 1e-9 * (1 + abs(a.v)):
                raise IllPosed('set membership of an inexact number close to a member')
        return False

    def is_zero_for_logzero(self, a):
        if a.v == 0.0 and (a.exact or a.e == 0.0):
            return True
        if a.v - 4 * a.e <= 0:
            raise IllPosed('logzero of an (almost) zero or negative number')
        return False


# ---------------------------------------------------------------------------------------------
# carrier 2: second-order jets


class Jet:
    __slots__ = ('v', 'g', 'h')

    def __init__(self, v, g, h):
        self.v = float(v)
        self.g = g
        self.h = h


class JetAlg:
    name = 'jet'

    def __init__(self, n):
        self.n = n
        self._zg = np.zeros(n)
        self._zh = np.zeros((n, n))

    def const(self, v):
        return Jet(v, self._zg, self._zh)

    def variable(self, v, i):
        g = np.zeros(self.n)
        g[i] = 1.0
        return Jet(v, g, self._zh)

    def val(self, x):
        return x.v

    def _chain(self, a, f, d1, d2):
        # f(a): value f, first derivative d1, second derivative d2 at a.v
        return Jet(f, d1 * a.g, d1 * a.h + d2 * np.outer(a.g, a.g))

    def add(self, a, b):
        return Jet(a.v + b.v, a.g + b.g, a.h + b.h)

    def sub(self, a, b):
        return Jet(a.v - b.v, a.g - b.g, a.h - b.h)

    def neg(self, a):
        return Jet(-a.v, -a.g, -a.h)

    def mul(self, a, b):
        og = np.outer(a.g, b.g)
        return Jet(a.v * b.v, a.v * b.g + b.v * a.g, a.v * b.h + b.v * a.h + og + og.T)

    def div(self, a, b):
        if b.v == 0:
            raise IllPosed('division by zero')
        inv = self._chain(b, 1.0 / b.v, -1.0 / b.v ** 2, 2.0 / b.v ** 3)
        return self.mul(a, inv)

    def exp(self, a):
        if a.v > 300:
            raise IllPosed('overflow')
        e = math.exp(a.v)
        return self._chain(a, e, e, e)

    def log(self, a):
        if a.v <= 0:
            raise OutOfDomain('log')
        return self._chain(a, math.log(a.v), 1.0 / a.v, -1.0 / a.v ** 2)

    def sin(self, a):
        return self._chain(a, math.sin(a.v), math.cos(a.v), -math.sin(a.v))

    def cos(self, a):
        return self._chain(a, math.cos(a.v), -math.sin(a.v), -math.cos(a.v))

    def ncdf(self, a):
        pdf = math.exp(-0.5 * a.v * a.v) / math.sqrt(2 * math.pi)
        return self._chain(a, 0.5 * math.erfc(-a.v / math.sqrt(2.0)), pdf, -a.v * pdf)

    def pow(self, a, b):
        if a.v <= 0:
            raise OutOfDomain('power')
        return self.exp(self.mul(b, self.log(a)))

    def powc(self, a, c):
        c = float(c)
        if c == 0:
            if a.v == 0:
                raise OutOfDomain('0**0')
            return self.const(1.0)
        if c == math.floor(c) and abs(c) <= 8:
            if a.v == 0 and c < 2:
                if c < 0:
                    raise OutOfDomain('negative power of zero')
            try:
                f = a.v ** c
                d1 = c * a.v ** (c - 1)
                d2 = c * (c - 1) * a.v ** (c - 2) if c != 1 else 0.0
            except ZeroDivisionError:
                raise IllPosed('power of zero')
            return self._chain(a, f, d1, d2)
        return self.pow(a, self.const(c))

    def truth(self, a):
        return a.v != 0.0

    def compare(self, op, a, b):
        r = {'Eq': a.v == b.v, 'Ne': a.v != b.v, 'Le': a.v <= b.v, 'Ge': a.v >= b.v,
             'Lt': a.v < b.v, 'Gt': a.v > b.v}[op]
        return self.const(1.0 if r else 0.0)

    @staticmethod
    def _kink(a, b):
        # at (or next to) a tie the two branches must have the same derivatives, otherwise the point is a kink of
        # the first or second derivative and either branch is a legitimate answer
        if abs(a.v - b.v) <= 1e-6 * (1 + abs(a.v)) and not (np.array_equal(a.g, b.g) and np.array_equal(a.h, b.h)):
            raise IllPosed('kink of min/max (tie between branches with different derivatives)')

    def minimum(self, a, b):
        self._kink(a, b)
        return a if a.v <= b.v else b

    def maximum(self, a, b):
        self._kink(a, b)
        return a if a.v >= b.v else b

    def intkey(self, a):
        return int(round(a.v))

    def member(self, a, members):
        return any(float(np.float32(m)) == a.v for m in members)

    def is_zero_for_logzero(self, a):
        return a.v == 0.0


# ---------------------------------------------------------------------------------------------
# environment and evaluation


class Env:
    """Everything a formula may read on one observation."""

    def __init__(self, row=None, betas=None, draws=None, rv=None, shared=None, free_index=None,
                 panel_rows=None, draws_by_r=None, derive_wrt=None):
        self.row = row or {}  # column -> value
        self.betas = betas or {}  # name -> value
        self.draws = draws or {}  # name -> value (current draw)
        self.rv = rv or {}  # name -> value (current integration node)
        self.shared = shared or []
        self.free_index = free_index or {}  # free parameter name -> position (sorted)
        self.panel_rows = panel_rows  # list of row dicts of the current individual
        self.draws_by_r = draws_by_r  # list over r of {name: value}
        self.wrt = None  # name of the leaf w.r.t. which Derive differentiates (jets of size 1)
        self.memo = {}

    def child(self, **kw):
        e = Env(self.row, self.betas, self.draws, self.rv, self.shared, self.free_index,
                self.panel_rows, self.draws_by_r)
        e.wrt = self.wrt
        for k, v in kw.items():
            setattr(e, k, v)
        return e


def evaluate(spec, env: Env, alg):
    """Value of the formula `spec` in environment `env` under carrier `alg`."""
    kind = spec[0]
    if kind == 'Num' or kind == 'Lit':
        v = spec[1]
        if isinstance(v, bool):
            v = 1.0 if v else 0.0
        return alg.const(float(v))
    if kind == 'Ref':
        key = ('ref', spec[1], id(env.row), id(env.draws), id(env.rv), env.wrt, alg.name)
        if key in env.memo:
            return env.memo[key]
        r = evaluate(env.shared[spec[1]], env, alg)
        env.memo[key] = r
        return r
    if env.wrt is not None and kind in ('Beta', 'Var', 'Draws', 'RV') and spec[1] == env.wrt:
        v = {'Beta': lambda: env.betas.get(spec[1], spec[2]), 'Var': lambda: env.row[spec[1]],
             'Draws': lambda: env.draws[spec[1]], 'RV': lambda: env.rv[spec[1]]}[kind]()
        return alg.variable(v, 0)
    if kind == 'Beta':
        name = spec[1]
        v = env.betas.get(name, spec[2])
        if spec[5] == 0 and isinstance(alg, JetAlg) and name in env.free_index:
            return alg.variable(v, env.free_index[name])
        return alg.const(v)
    if kind == 'Var':
        if spec[1] not in env.row:
            raise KeyError(f'reference: unknown column {spec[1]}')
        return alg.const(env.row[spec[1]])
    if kind == 'Draws':
        return alg.const(env.draws[spec[1]])
    if kind == 'RV':
        return alg.const(env.rv[spec[1]])
    if kind in BINARY:
        if kind in ('And', 'Or'):
            a = evaluate(spec[1], env, alg)
            ta = alg.truth(a)
            # both operands are evaluated for well-posedness, as mathematics has no short cut
            b = evaluate(spec[2], env, alg)
            tb = alg.truth(b)
            r = (ta and tb) if kind == 'And' else (ta or tb)
            return alg.const(1.0 if r else 0.0)
        a = evaluate(spec[1], env, alg)
        b = evaluate(spec[2], env, alg)
        if kind == 'Plus':
            return alg.add(a, b)
        if kind == 'Minus':
            return alg.sub(a, b)
        if kind == 'Times':
            return alg.mul(a, b)
        if kind == 'Divide':
            return alg.div(a, b)
        if kind == 'Power':
            return alg.pow(a, b)
        if kind == 'Min':
            return alg.minimum(a, b)
        if kind == 'Max':
            return alg.maximum(a, b)
        return alg.compare(kind, a, b)
    if kind == 'Neg':
        return alg.neg(evaluate(spec[1], env, alg))
    if kind == 'exp':
        return alg.exp(evaluate(spec[1], env, alg))
    if kind == 'log':
        return alg.log(evaluate(spec[1], env, alg))
    if kind == 'logzero':
        a = evaluate(spec[1], env, alg)
        if alg.is_zero_for_logzero(a):
            return alg.const(0.0)
        return alg.log(a)
    if kind == 'sin':
        return alg.sin(evaluate(spec[1], env, alg))
    if kind == 'cos':
        return alg.cos(evaluate(spec[1], env, alg))
    if kind == 'NormalCdf':
        return alg.ncdf(evaluate(spec[1], env, alg))
    if kind == 'PowC':
        return alg.powc(evaluate(spec[1], env, alg), spec[2])
    if kind == 'BelongsTo':
        a = evaluate(spec[1], env, alg)
        return alg.const(1.0 if alg.member(a, spec[2]) else 0.0)
    if kind == 'Elem':
        k = alg.intkey(evaluate(spec[1], env, alg))
        for kk, e in spec[2]:
            if int(kk) == k:
                return evaluate(e, env, alg)
        raise OutOfDomain(f'key {k} absent from the dictionary')
    if kind == 'MultSum':
        acc = alg.const(0.0)
        for e in spec[1]:
            acc = alg.add(acc, evaluate(e, env, alg))
        return acc
    if kind == 'MultSumDict':
        acc = alg.const(0.0)
        for _, e in spec[1]:
            acc = alg.add(acc, evaluate(e, env, alg))
        return acc
    if kind == 'CondSum':
        acc = alg.const(0.0)
        for cond, term in spec[1]:
            c = evaluate(cond, env, alg)
            t = evaluate(term, env, alg)  # well-posedness of every term, taken or not
            if alg.truth(c):
                acc = alg.add(acc, t)
        return acc
    if kind == 'LinUtil':
        acc = alg.const(0.0)
        for b, x in spec[1]:
            acc = alg.add(acc, alg.mul(evaluate(b, env, alg), evaluate(x, env, alg)))
        return acc
    if kind == 'LogLogit':
        choice = alg.intkey(evaluate(spec[1], env, alg))
        chosen = None
        avail = []
        for alt, util, av in spec[2]:
            is_av = True if av is None else alg.truth(evaluate(av, env, alg))
            u = evaluate(util, env, alg)
            if int(alt) == choice:
                if not is_av:
                    raise OutOfDomain('chosen alternative unavailable')
                chosen = u
            if is_av:
                avail.append(u)
        if chosen is None:
            raise OutOfDomain('choice is not an alternative')
        # log-sum-exp, shifted by the largest utility
        m = max(alg.val(u) for u in avail)
        if m - alg.val(chosen) > 600:
            raise IllPosed('overflow: utility differences beyond the range of exp')
        shift = alg.const(m)
        acc = alg.const(0.0)
        for u in avail:
            acc = alg.add(acc, alg.exp(alg.sub(u, shift)))
        return alg.sub(alg.sub(chosen, shift), alg.log(acc))
    if kind == 'MonteCarlo':
        if env.draws_by_r is None:
            raise OutOfDomain('MonteCarlo without draws')
        acc = alg.const(0.0)
        for d in env.draws_by_r:
            acc = alg.add(acc, evaluate(spec[1], env.child(draws=d, memo={}), alg))
        return alg.div(acc, alg.const(float(len(env.draws_by_r))))
    if kind == 'PanelTraj':
        if env.panel_rows is None:
            raise OutOfDomain('trajectory without panel rows')
        acc = alg.const(1.0)
        for row in env.panel_rows:
            acc = alg.mul(acc, evaluate(spec[1], env.child(row=row, memo={}), alg))
        return acc
    if kind == 'Integrate':
        return _integrate(spec, env, alg)
    if kind == 'Derive':
        return _derive(spec, env, alg)
    raise ValueError(f'unknown node kind {kind!r}')


def _integrate(spec, env, alg):
    from scipy.integrate import quad

    name = spec[2]
    if isinstance(alg, EVAlg):
        plain = EVAlg()

        def f(x):
            try:
                return evaluate(spec[1], env.child(rv=dict(env.rv, **{name: x}), memo={}), plain).v
            except IllPosed:
                return float('nan')

        import warnings

        with warnings.catch_warnings():
            warnings.simplefilter('ignore')
            # the standard normal density underflows beyond |w| = 38: finite range, no overflow games
            v, err = quad(f, -38.0, 38.0, epsabs=1e-13, epsrel=1e-12, limit=800, points=[-6, -2, 0, 2, 6])
        if not math.isfinite(v):
            raise IllPosed('integral not finite')
        return EV(v, abs(err) + 1e-7 * abs(v) + 1e-10, False)
    # jets: integrate each component
    n = alg.n

    def comp(x):
        j = evaluate(spec[1], env.child(rv=dict(env.rv, **{name: x}), memo={}), alg)
        return j

    def q(fun):
        v, _ = quad(fun, -38.0, 38.0, epsabs=1e-12, epsrel=1e-11, limit=800, points=[-6, -2, 0, 2, 6])
        return v

    v = q(lambda x: comp(x).v)
    g = np.array([q(lambda x, i=i: comp(x).g[i]) for i in range(n)])
    h = np.zeros((n, n))
    for i in range(n):
        for j in range(i, n):
            h[i, j] = h[j, i] = q(lambda x, i=i, j=j: comp(x).h[i, j])
    return Jet(v, g, h)


def _derive(spec, env, alg):
    """Partial derivative of the child w.r.t. a named parameter or variable (value only)."""
    name = spec[2]
    ja = JetAlg(1)
    sub_env = env.child(memo={})
    sub_env.free_index = {}
    sub_env.wrt = name
    j = evaluate(spec[1], sub_env, ja)
    if isinstance(alg, EVAlg):
        return EV(j.g[0], 1e-9 * (1 + abs(j.g[0])), False)
    return alg.const(j.g[0])


# ---------------------------------------------------------------------------------------------
# convenience


def free_names(spec_or_specs, shared=()):
    """Sorted names of the free parameters reachable from the given spec(s)."""
    names = set()
    seen = set()

    def walk(s):
        if not isinstance(s, list) or not s:
            return
        k = s[0]
        if k == 'Beta':
            if s[5] == 0:
                names.add(s[1])
            return
        if k == 'Ref':
            if s[1] not in seen:
                seen.add(s[1])
                walk(shared[s[1]])
            return
        for c in s[1:]:
            if isinstance(c, list):
                if c and isinstance(c[0], str):
                    walk(c)
                else:
                    for cc in c:
                        if isinstance(cc, list):
                            if cc and isinstance(cc[0], str):
                                walk(cc)
                            else:
                                for ccc in cc:
                                    if isinstance(ccc, list) and ccc and isinstance(ccc[0], str):
                                        walk(ccc)

    if spec_or_specs and isinstance(spec_or_specs[0], str):
        walk(spec_or_specs)
    else:
        for s in spec_or_specs:
            walk(s)
    return sorted(names)


def children(spec):
    """Direct sub-specs of a node (in a fixed order)."""
    k = spec[0]
    if k in ('Num', 'Lit', 'Beta', 'Var', 'Draws', 'RV', 'Ref'):
        return []
    if k in BINARY:
        return [spec[1], spec[2]]
    if k in UNARY or k in ('PowC', 'BelongsTo', 'Integrate', 'Derive'):
        return [spec[1]]
    if k == 'Elem':
        return [spec[1]] + [e for _, e in spec[2]]
    if k == 'MultSum':
        return list(spec[1])
    if k == 'MultSumDict':
        return [e for _, e in spec[1]]
    if k == 'CondSum':
        return [x for pair in spec[1] for x in pair]
    if k == 'LinUtil':
        return [x for pair in spec[1] for x in pair]
    if k == 'LogLogit':
        out = [spec[1]]
        for _, u, av in spec[2]:
            out.append(u)
            if av is not None:
                out.append(av)
        return out
    raise ValueError(k)


def walk(spec, shared=(), expand_refs=True, _seen=None):
    """Yield every node reachable from spec (shared sub-trees once)."""
    if _seen is None:
        _seen = set()
    yield spec
    if spec[0] == 'Ref':
        if expand_refs and spec[1] not in _seen:
            _seen.add(spec[1])
            yield from walk(shared[spec[1]], shared, expand_refs, _seen)
        return
    for c in children(spec):
        yield from walk(c, shared, expand_refs, _seen)


def render(spec, shared=()):
    k = spec[0]
    r = lambda s: render(s, shared)  # noqa: E731
    if k == 'Num':
        return f'{spec[1]!r}'
    if k == 'Lit':
        return f'py:{spec[1]!r}'
    if k == 'Beta':
        return f"Beta({spec[1]!r},{spec[2]!r},{spec[3]!r},{spec[4]!r},{spec[5]})"
    if k == 'Var':
        return f'Var({spec[1]!r})'
    if k == 'Draws':
        return f'bioDraws({spec[1]!r},{spec[2]!r})'
    if k == 'RV':
        return f'RandomVariable({spec[1]!r})'
    if k == 'Ref':
        return f'#{spec[1]}'
    sym = {'Plus': '+', 'Minus': '-', 'Times': '*', 'Divide': '/', 'Power': '**', 'And': '&',
           'Or': '|', 'Eq': '==', 'Ne': '!=', 'Le': '<=', 'Ge': '>=', 'Lt': '<', 'Gt': '>'}
    if k in sym:
        return f'({r(spec[1])} {sym[k]} {r(spec[2])})'
    if k in ('Min', 'Max'):
        return f'bio{k}({r(spec[1])}, {r(spec[2])})'
    if k == 'Neg':
        return f'(-{r(spec[1])})'
    if k in UNARY:
        return f'{k}({r(spec[1])})'
    if k == 'PowC':
        return f'({r(spec[1])})**{spec[2]!r}'
    if k == 'BelongsTo':
        return f'BelongsTo({r(spec[1])}, {set(spec[2])})'
    if k == 'Elem':
        return 'Elem({' + ', '.join(f'{kk}: {r(e)}' for kk, e in spec[2]) + '}, ' + r(spec[1]) + ')'
    if k == 'MultSum':
        return 'bioMultSum([' + ', '.join(r(e) for e in spec[1]) + '])'
    if k == 'MultSumDict':
        return 'bioMultSum({' + ', '.join(f'{kk!r}: {r(e)}' for kk, e in spec[1]) + '})'
    if k == 'CondSum':
        return 'ConditionalSum([' + ', '.join(f'({r(c)} ? {r(t)})' for c, t in spec[1]) + '])'
    if k == 'LinUtil':
        return 'bioLinearUtility([' + ', '.join(f'({r(b)}, {r(x)})' for b, x in spec[1]) + '])'
    if k == 'LogLogit':
        return ('LogLogit(choice=' + r(spec[1]) + ', {' +
                ', '.join(f'{a}: V={r(u)} av={r(av) if av is not None else "-"}' for a, u, av in spec[2]) + '}' +
                (f', av listed as {spec[4]}' if len(spec) > 4 and spec[4] else '') + ')')
    if k in ('Integrate', 'Derive'):
        return f'{k}({r(spec[1])}, {spec[2]!r})'
    return str(spec)


def canon_node(spec):
    import json

    return json.dumps(spec, sort_keys=True)
