#!/bin/bash
# usage: tools_seeded.sh <ID> <mutant-dir> <name> [check args]
# Confirms a seeded change (demo passes on /repo, fails with the patch), runs the property's check on it, stores it in seeded/.
set -u
id=$1; src=$(realpath $2); name=$3; shift 3
dst=/verif/seeded/${id}_${name}
mkdir -p $dst
cp $src/patch.diff $dst/patch.diff; cp $src/demo.py $dst/demo.py
d=$(mktemp -d /tmp/seed.XXXXXX); mkdir -p $d/repo; cp -r /repo/src $d/repo/src
if ! (cd $d/repo && patch -p1 -s < $dst/patch.diff); then echo "PATCH DOES NOT APPLY"; rm -rf $d; exit 3; fi
(cd /tmp && PYTHONPATH=/repo/src timeout 600 /venv/bin/python $dst/demo.py > $dst/demo_without.log 2>&1); rc0=$?
(cd /tmp && PYTHONPATH=$d/repo/src timeout 600 /venv/bin/python $dst/demo.py > $dst/demo_with.log 2>&1); rc1=$?
cd /verif
VERIF_REPO_SRC=$d/repo/src ./check $id --no-evidence "$@" > $dst/check.log 2>&1; rcc=$?
keys=$(grep -o "key=[^ ]*" $dst/check.log | sort -u | head -8 | tr '\n' ' ')
rm -rf $d
echo "$id $name demo_without=$rc0 demo_with=$rc1 check_exit=$rcc $keys"
/venv/bin/python - "$src/meta.json" "$dst/meta.json" "$id" "$rc0" "$rc1" "$rcc" "$keys" "$*" <<'PY'
import json, sys
try: m = json.load(open(sys.argv[1]))
except Exception: m = {}
m.update(property=sys.argv[3], demo_exit_without_patch=int(sys.argv[4]), demo_exit_with_patch=int(sys.argv[5]),
         check_cmd=f'VERIF_REPO_SRC=<scratch copy with patch>/src ./check {sys.argv[3]} --no-evidence {sys.argv[8]}'.strip(),
         check_exit=int(sys.argv[6]), check_keys=sys.argv[7].split(), detected=int(sys.argv[6]) == 1)
json.dump(m, open(sys.argv[2], 'w'), indent=1)
PY
