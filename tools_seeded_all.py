#!/venv/bin/python
"""Re-run every seeded change under seeded/ against the current checks (N at a time).

For each seeded/<ID>_<name>/: the patch must apply to a scratch copy of /repo/src, the demo must pass on /repo and fail with
the patch, and the check named in meta.json (`detected_by`, default the property's own) must exit 1 on the patched copy.
meta.json is refreshed (detected, check_exit, check_keys); a summary goes to out/seeded_all.txt.
usage: tools_seeded_all.py [-j N] [ID ...]
"""
import json
import os
import re
import shutil
import subprocess
import sys
import tempfile
from concurrent.futures import ThreadPoolExecutor

HERE = os.path.dirname(os.path.abspath(__file__))


def one(d):
    name = os.path.basename(d)
    meta_p = os.path.join(d, 'meta.json')
    m = json.load(open(meta_p))
    prop = m['property']
    check_id = m.get('detected_by') or prop
    extra = re.findall(r'--only \S+', m.get('check_cmd', ''))
    tmp = tempfile.mkdtemp(prefix='seedall.')
    try:
        os.makedirs(os.path.join(tmp, 'repo'))
        shutil.copytree('/repo/src', os.path.join(tmp, 'repo', 'src'))
        r = subprocess.run(['patch', '-p1', '-s', '-i', os.path.join(d, 'patch.diff')], cwd=os.path.join(tmp, 'repo'),
                           capture_output=True, text=True)
        if r.returncode != 0:
            return name, 'PATCH DOES NOT APPLY', None, None, None
        env0 = dict(os.environ, PYTHONPATH='/repo/src')
        env1 = dict(os.environ, PYTHONPATH=os.path.join(tmp, 'repo', 'src'))
        rc0 = subprocess.run(['/venv/bin/python', os.path.join(d, 'demo.py')], cwd=tmp, env=env0, capture_output=True, timeout=1200).returncode
        rc1 = subprocess.run(['/venv/bin/python', os.path.join(d, 'demo.py')], cwd=tmp, env=env1, capture_output=True, timeout=1200).returncode
        envc = dict(os.environ, VERIF_REPO_SRC=os.path.join(tmp, 'repo', 'src'))
        cmd = ['./check', check_id, '--no-evidence'] + [w for e in extra for w in e.split()]
        c = subprocess.run(cmd, cwd=HERE, env=envc, capture_output=True, text=True, timeout=7200)
        open(os.path.join(d, 'check.log'), 'w').write(c.stdout + c.stderr)
        keys = sorted(set(re.findall(r'key=(\S+)', c.stdout)))[:8]
        m.update(demo_exit_without_patch=rc0, demo_exit_with_patch=rc1, check_exit=c.returncode, check_keys=keys,
                 detected=c.returncode == 1,
                 check_cmd=f'VERIF_REPO_SRC=<scratch copy with patch>/src ./check {check_id} --no-evidence ' + ' '.join(extra))
        json.dump(m, open(meta_p, 'w'), indent=1)
        return name, 'ok', rc0, rc1, c.returncode
    finally:
        shutil.rmtree(tmp, ignore_errors=True)


def main():
    args = sys.argv[1:]
    jobs = 3
    if args[:1] == ['-j']:
        jobs = int(args[1])
        args = args[2:]
    dirs = sorted(os.path.join(HERE, 'seeded', x) for x in os.listdir(os.path.join(HERE, 'seeded'))
                  if os.path.isfile(os.path.join(HERE, 'seeded', x, 'meta.json')) and (not args or x.split('_')[0] in args))
    os.makedirs(os.path.join(HERE, 'out'), exist_ok=True)
    lines = []
    with ThreadPoolExecutor(jobs) as ex:
        for name, status, rc0, rc1, rcc in ex.map(one, dirs):
            good = status == 'ok' and rc0 == 0 and rc1 == 1 and rcc == 1
            line = f'{name}: {status} demo_without={rc0} demo_with={rc1} check_exit={rcc} {"CAUGHT" if good else "ATTENTION"}'
            print(line, flush=True)
            lines.append(line)
    open(os.path.join(HERE, 'out', 'seeded_all.txt'), 'w').write('\n'.join(lines) + '\n')
    return 0 if all('CAUGHT' in ln for ln in lines) else 1


if __name__ == '__main__':
    sys.exit(main())
