#!/venv/bin/python
"""Regenerate MANIFEST.json from the table below (keeps it valid by construction)."""
import json, os, sys
HERE = os.path.dirname(os.path.abspath(__file__))
sys.path.insert(0, HERE)
from manifest_table import CHECKS, NOT_APPLICABLE, FIX_COMMITS

manifest = dict(
    version=1,
    setup_cmd="/venv/bin/python -c 'import hypothesis' 2>/dev/null || /venv/bin/pip install --no-index --find-links /opt/veriftools/wheels hypothesis",
    hooks=dict(
        guard='BIOGEME_VERIF',
        enable='no source hook exists: the checks import /repo/src (editable install) as it is; crash points and generator '
               'recording are injected from the harness process by replacing module-level names',
        baseline_off_cmd='cd /repo && env -u BIOGEME_VERIF /venv/bin/python -m pytest -ra -q -p no:cacheprovider --timeout=900 --continue-on-collection-errors',
        source_commits=[],
        add_only=True,
    ),
    engines=[dict(name='pbt', path='/verif/check', serves_properties=[c['id'] for c in CHECKS],
                  kind_free_text='Hypothesis 6.168 property-based testing; explicit reference oracles in /verif/vlib; '
                                 'sharded, seeded from VERIF_SEED, fork-per-case isolation of the compiled engine')],
    checks=[],
    notes='Defect repairs in /repo (unguarded fix: commits): ' + ', '.join(FIX_COMMITS) + '. See known_findings.json and DESIGN.md.',
    not_applicable=NOT_APPLICABLE,
)
for c in CHECKS:
    manifest['checks'].append(dict(
        property_id=c['id'],
        quick_cmd=f"./check {c['id']} --tier quick",
        thorough_cmd=f"./check {c['id']} --tier thorough",
        evidence_file=f"/verif/evidence/{c['id']}.json",
        replay_cmd_template=f"./check {c['id']} --replay {{path}}",
        engine='pbt',
        level_claimed=dict(category=c.get('level', 'exploration'), text=c['text'], design_ref=c.get('ref', f"DESIGN.md section 3 {c['id']}")),
        level_note=c['note'],
        technique=c['technique'],
    ))
with open(os.path.join(HERE, 'MANIFEST.json'), 'w') as f:
    json.dump(manifest, f, indent=1)
try:
    import jsonschema
    jsonschema.validate(manifest, json.load(open('/root/.vp/MANIFEST.schema.json')))
    print('MANIFEST.json valid;', len(CHECKS), 'checks;', len(NOT_APPLICABLE), 'not applicable')
except ImportError:
    print('written (jsonschema not importable here)')
