#!/bin/bash
# usage: tools_mutant.sh <patch.diff> <ID> [extra check args]   -- runs a check against a scratch copy of src/ with the patch applied
set -e
patch=$(realpath "$1"); id=$2; shift 2
d=$(mktemp -d /tmp/mut.XXXXXX)
mkdir -p $d/repo && cp -r /repo/src $d/repo/src
(cd $d/repo && patch -p1 -s < "$patch")
cd /verif
set +e
VERIF_REPO_SRC=$d/repo/src ./check $id --no-evidence "$@" 2>&1 | grep -v "^WARNING conda" | cut -c1-600 | tail -15
rc=${PIPESTATUS[0]}
rm -rf $d
echo "exit=$rc"
